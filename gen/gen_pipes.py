#!/usr/bin/env python3
"""Registry generation for /verif/harness/pipes (hand-written harness files; no generated instances yet)."""
import os
import gen_lat

HERE = os.path.dirname(os.path.abspath(__file__))
CRATE = os.path.join(HERE, "..", "harness", "pipes")


def main(select=None, crate_dir=None):
    gen_lat.SELECT = select
    hs = gen_lat.write_registry(crate_dir or CRATE, "vpipes", static_mods={"script"})
    print(f"gen_pipes: {len(hs)} harnesses")


if __name__ == "__main__":
    main()
