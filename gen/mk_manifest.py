#!/usr/bin/env python3
"""Writes /verif/MANIFEST.json from the tables below (kept in one place so it stays valid)."""
import json, os
HERE = os.path.dirname(os.path.abspath(__file__))
VERIF = os.path.dirname(HERE)

TECH = "bounded symbolic execution of the real Rust code with Kani 0.68 / CBMC 6.11 (SAT, CaDiCaL); counterexamples replayed natively"

B = "Same trusted base and bounds as C01 (see evidence.coverage.bounds/outside_claim)."
CLAIMED = {
 "C01": ("§4 C01", "For every listed monomorphisation/shape (scalars at full width, nestings to depth 3, derive(Lattice) structs, CapSet/BTreeSet sets, BTreeMap/CapMap maps, vectors, union-find, tombstone lattices) the solver shows merge idempotent/commutative/associative for ALL contents within the stated shape bounds; a bounded claim, not a proof.",
         "Trusted: Kani/CBMC, harness models and CapSet/CapMap. Hash-backed aliases are outside the claim."),
 "C02": ("§4 C02", "Solver-checked for all contents within bounds: merge's flag == (value strictly grew), against ==, partial_cmp and an independent model; heterogeneous merges included.", B),
 "C03": ("§4 C03", "Solver-checked for all contents within bounds: partial_cmp/eq equal the model order and the merge-derived order, partial-order axioms on symbolic triples, is_bot/is_top exact, Default is bottom, including cross-representation comparisons.", B + " Array-backed collections assumed duplicate-free."),
 "C04": ("§4 C04", "Solver-checked for all contents within bounds: merge result equals the documented abstract join (independent model), heterogeneous merges and LatticeFrom conversions agree, union-find same() equals the equivalence closure after every step of a symbolic history, arbitrary (malformed) parent maps included.", B + " Union-find domain of 4 items."),
 "C05": ("§4 C05", "Inductive step decided by the solver from an arbitrary invariant-satisfying state: tombstones' = union, live' = (union of inserts) minus tombstones', never both, never resurrected, for every item (symbolic probe) — covers histories of any length/order; plus two-order witnesses. Backend-independent generic merge logic only.",
         "Trusted: harness TombstoneSet impl on CapSet. The hash/roaring/FST backend-equivalence clause is outside the claim (not encodable)."),
 "C06": ("§4 C06", "Solver-checked per value shape: atoms non-bottom, none exactly for bottom, merging atoms into Default reforms the value.", B),
 "C07": ("§4 C07", "Solver-checked per shape: cartesian-product, keyed and pair bimorphisms distribute over merge in each argument and compute the relational product. GHT bimorphisms are outside the claim.", B),
 "C09": ("§4 C09", "Every law checker agrees with a textbook reference for ALL operation tables over a 3-element carrier (symbolic tables), composites and get_single_function_properties included; shipped semirings satisfy the semiring laws at symbolic triples (full u32 / all doubles in [0,1]).",
         "Trusted: reference law statements in the harness. Carriers > 3 and exact f64 multiplication associativity are outside the claim."),
 "C11": ("§4 C11", "Each pull combinator equals its iterator adapter for EVERY placement of Pending/Ended and every item value within the script bound (symbolic scripts); fused pulls stay ended; size hints bracket.",
         "Trusted: scripted source + caller loop in the harness crate. Script length 3-6."),
 "C12": ("§4 C12", "Each push combinator delivers the reference sequences for EVERY pattern of downstream Pending answers within the bound and honours the protocol (asserted by the scripted downstream).",
         "Trusted: scripted downstream + caller loop. 2-3 items, <= 3 pendings per poll kind. Keyed/Vec-backed/FuturesUnordered combinators outside the claim."),
 "C13": ("§4 C13", "PARTIAL: only SymmetricHashJoin::pull's orchestration is decided (every pending placement, set and multiset semantics) with a harness-side HalfJoinState; the shipped FxHashMap states, NewTickJoinIter and the multi-tick clauses are not encodable.",
         "Trusted: harness ArrState honours the HalfJoinState contract. A defect inside half_join_state/*.rs is invisible to this check."),
 "C14": ("§4 C14", "Each sink adaptor delivers exactly once, in order, to the addressed sink for EVERY readiness/flush pattern within the bound; LazySink initialises at most once and loses nothing, for every placement of pendings in init/ready/flush.",
         "Trusted: scripted sink + caller loop. demux_map(_lazy) (HashMap) outside the claim."),
 "C15": ("§4 C15", "The real MergeSource/TaggedSource poll_next over scripted streams: per-sender order, exactly-once, tag, end exactly when all ended, cursor in range — for every per-poll ready/pending/ended pattern within the bound.",
         "Trusted: scripted streams. 2 sources x 2 polls (quick)."),
}

NA = {}

def main():
    props = [json.loads(l) for l in open(os.path.join(VERIF, "properties.jsonl"))]
    ids = [p["id"] for p in props]
    na_reasons = json.load(open(os.path.join(HERE, "not_applicable.json")))
    checks = []
    for pid in ids:
        if pid in CLAIMED:
            ref, text, note = CLAIMED[pid]
            checks.append(dict(
                property_id=pid,
                quick_cmd=f"./check {pid} --tier quick",
                thorough_cmd=f"./check {pid} --tier thorough",
                evidence_file=f"/verif/evidence/{pid}.json",
                replay_cmd_template=f"./check {pid} --replay {{path}}",
                engine="kani-cbmc",
                level_claimed=dict(category="other", text="Bounded symbolic verification (solver verdict over all inputs within stated bounds, unwinding assertions on). " + text, design_ref=ref),
                level_note=note,
                technique=TECH,
            ))
    na = [dict(property_id=pid, reason=na_reasons[pid]) for pid in ids if pid not in CLAIMED]
    missing = [pid for pid in ids if pid not in CLAIMED and pid not in na_reasons]
    assert not missing, missing
    m = dict(
        version=1,
        setup_cmd="./check --setup",
        hooks=dict(
            guard="hydro_project_hydro_verif",
            enable="cargo feature `hydro_project_hydro_verif` on the hooked crates (enabled by the harness crates' path dependencies)",
            baseline_off_cmd="cd /repo && cargo nextest run --workspace --no-fail-fast --test-threads 8 --offline || cargo test --workspace --no-fail-fast --offline",
            source_commits=["f98a6666fd7", "1f1ad967d9a"],
            add_only=True,
        ),
        engines=[dict(name="kani-cbmc", path="/verif/check", serves_properties=sorted(CLAIMED),
                      kind_free_text="Kani 0.68 (rustc MIR -> goto) + CBMC 6.11 + CaDiCaL: bounded symbolic execution of the real crates, driven by /verif/check; native replay of counterexamples with the repo toolchain")],
        checks=checks,
        notes="Every claim is bounded (see evidence.coverage.bounds / outside_claim). Exit 2 of ./check means inconclusive (never a pass). Findings: /verif/known_findings.txt.",
        not_applicable=na,
    )
    with open(os.path.join(VERIF, "MANIFEST.json"), "w") as f:
        json.dump(m, f, indent=1)
    print(f"MANIFEST: {len(checks)} claimed, {len(na)} not applicable")

if __name__ == "__main__":
    main()
