#!/usr/bin/env python3
"""Writes /verif/MANIFEST.json from the tables below (kept in one place so it stays valid)."""
import json, os
HERE = os.path.dirname(os.path.abspath(__file__))
VERIF = os.path.dirname(HERE)

TECH = "bounded symbolic execution of the real Rust code with Kani 0.68 / CBMC 6.11 (SAT, CaDiCaL); counterexamples replayed natively"

CLAIMED = {
 "C01": ("§4 C01", "For every listed monomorphisation (scalars at full width, nestings to depth 3, derive(Lattice) structs, CapSet/CapMap-backed sets and maps, tombstone lattices) the solver shows merge idempotent/commutative/associative for ALL values within the stated shape bounds; a bounded claim, not a proof.",
         "Trusted: Kani/CBMC, harness models and CapSet/CapMap (validated by cap_* harnesses). Hash-backed aliases are outside the claim."),
 "C02": ("§4 C02", "Solver-checked for all values within bounds: merge's flag == (value strictly grew), against ==, partial_cmp and an independent model.",
         "Same trusted base and bounds as C01."),
 "C03": ("§4 C03", "Solver-checked for all values within bounds: partial_cmp/eq equal the model order and the merge-derived order, partial-order axioms on symbolic triples, is_bot/is_top exact, Default is bottom, including cross-representation comparisons.",
         "Same trusted base and bounds as C01; array-backed collections assumed duplicate-free."),
 "C04": ("§4 C04", "Solver-checked for all values within bounds: merge result equals the documented abstract join (independent model), heterogeneous merges and LatticeFrom conversions agree, union-find same() equals the equivalence closure after every step.",
         "Same trusted base and bounds as C01; union-find domain of 4 items."),
}

NA = {}

def main():
    props = [json.loads(l) for l in open(os.path.join(VERIF, "properties.jsonl"))]
    ids = [p["id"] for p in props]
    na_reasons = json.load(open(os.path.join(HERE, "not_applicable.json")))
    checks = []
    for pid in ids:
        if pid in CLAIMED:
            ref, text, note = CLAIMED[pid]
            checks.append(dict(
                property_id=pid,
                quick_cmd=f"./check {pid} --tier quick",
                thorough_cmd=f"./check {pid} --tier thorough",
                evidence_file=f"/verif/evidence/{pid}.json",
                replay_cmd_template=f"./check {pid} --replay {{path}}",
                engine="kani-cbmc",
                level_claimed=dict(category="other", text="Bounded symbolic verification (solver verdict over all inputs within stated bounds, unwinding assertions on). " + text, design_ref=ref),
                level_note=note,
                technique=TECH,
            ))
    na = [dict(property_id=pid, reason=na_reasons[pid]) for pid in ids if pid not in CLAIMED]
    missing = [pid for pid in ids if pid not in CLAIMED and pid not in na_reasons]
    assert not missing, missing
    m = dict(
        version=1,
        setup_cmd="./check --setup",
        hooks=dict(
            guard="hydro_project_hydro_verif",
            enable="cargo feature `hydro_project_hydro_verif` on the hooked crates (enabled by the harness crates' path dependencies)",
            baseline_off_cmd="cd /repo && cargo nextest run --workspace --no-fail-fast --test-threads 8 --offline || cargo test --workspace --no-fail-fast --offline",
            source_commits=[],
            add_only=True,
        ),
        engines=[dict(name="kani-cbmc", path="/verif/check", serves_properties=sorted(CLAIMED),
                      kind_free_text="Kani 0.68 (rustc MIR -> goto) + CBMC 6.11 + CaDiCaL: bounded symbolic execution of the real crates, driven by /verif/check; native replay of counterexamples with the repo toolchain")],
        checks=checks,
        notes="Every claim is bounded (see evidence.coverage.bounds / outside_claim). Exit 2 of ./check means inconclusive (never a pass). Findings: /verif/known_findings.txt.",
        not_applicable=na,
    )
    with open(os.path.join(VERIF, "MANIFEST.json"), "w") as f:
        json.dump(m, f, indent=1)
    print(f"MANIFEST: {len(checks)} claimed, {len(na)} not applicable")

if __name__ == "__main__":
    main()
