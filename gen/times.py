#!/usr/bin/env python3
"""List per-harness verification times from the Kani logs of a property (calibration helper)."""
import glob, importlib.machinery, importlib.util, sys
loader = importlib.machinery.SourceFileLoader('chk', '/verif/check'); spec = importlib.util.spec_from_loader('chk', loader); m = importlib.util.module_from_spec(spec); loader.exec_module(m)
prop = sys.argv[1]
rows = []
for f in sorted(glob.glob(f'/verif/.cache/logs/{prop}/*.kani.log')):
    r = m.parse_kani_log(open(f, errors='replace').read())
    for k, v in r.items():
        rows.append((v['time'] if v['time'] is not None else -1, k, v['verdict'], v['covers'], [x['desc'][:60] for x in v['failed']], f.split('/')[-1]))
for row in sorted(rows):
    print(row)
