#!/usr/bin/env python3
"""Registry generation for /verif/harness/net (hand-written harness files)."""
import os
import gen_lat

HERE = os.path.dirname(os.path.abspath(__file__))
CRATE = os.path.join(HERE, "..", "harness", "net")


def main(select=None, crate_dir=None):
    gen_lat.SELECT = select
    hs = gen_lat.write_registry(crate_dir or CRATE, "vnet", static_mods=set())
    print(f"gen_net: {len(hs)} harnesses")


if __name__ == "__main__":
    main()
