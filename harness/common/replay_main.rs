// Native replay of a solver counterexample: `replay <harness> <tape.json>`
// tape.json = [[b0,b1,..],[..],..]  (the concrete_vals of Kani's concrete playback, in order)
// exit 0: harness body ran to completion (counterexample does NOT reproduce)
// exit 101: panicked (reproduces); exit 3: an assumption failed on the tape (encoding mismatch)
fn parse_tape(s: &str) -> Vec<Vec<u8>> {
    let mut out = Vec::new();
    let mut cur: Option<Vec<u8>> = None;
    let mut num = String::new();
    let mut depth = 0;
    for c in s.chars() {
        match c {
            '[' => {
                depth += 1;
                if depth == 2 {
                    cur = Some(Vec::new());
                }
            }
            ']' => {
                if depth == 2 {
                    if !num.is_empty() {
                        cur.as_mut().unwrap().push(num.parse().unwrap());
                        num.clear();
                    }
                    out.push(cur.take().unwrap());
                }
                depth -= 1;
            }
            ',' => {
                if depth == 2 && !num.is_empty() {
                    cur.as_mut().unwrap().push(num.parse().unwrap());
                    num.clear();
                }
            }
            d if d.is_ascii_digit() => num.push(d),
            _ => {}
        }
    }
    out
}

fn main() {
    let args: Vec<String> = std::env::args().collect();
    if args.len() == 2 && args[1] == "--list" {
        for (n, _) in HARNESSES {
            println!("{n}");
        }
        return;
    }
    if args.len() != 3 {
        eprintln!("usage: replay <harness> <tape.json> | --list");
        std::process::exit(2);
    }
    let Some((_, f)) = HARNESSES.iter().find(|(n, _)| *n == args[1]) else {
        eprintln!("unknown harness {}", args[1]);
        std::process::exit(2);
    };
    let tape = parse_tape(&std::fs::read_to_string(&args[2]).expect("tape file"));
    sym::tape::load(tape);
    let r = std::panic::catch_unwind(|| f());
    match r {
        Ok(()) => {
            println!("REPLAY-OK covers={:?}", sym::tape::covers());
            std::process::exit(0)
        }
        Err(_) => {
            println!("REPLAY-PANIC");
            std::process::exit(101)
        }
    }
}
