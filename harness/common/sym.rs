//! Symbolic-value plumbing shared by all harnesses.
//!
//! Under `cfg(kani)` every `any::<T>()` is a fresh solver variable (`kani::any()`).
//! In a native build the same harness body is executed with `any` reading the next value from a
//! *tape* (the byte vectors of a Kani concrete-playback counterexample), so a counterexample found
//! by the solver is replayed against the real crates before it is reported.

#[cfg(not(kani))]
pub mod tape {
    use std::cell::RefCell;
    thread_local! {
        static TAPE: RefCell<(Vec<Vec<u8>>, usize)> = RefCell::new((Vec::new(), 0));
        static COVERS: RefCell<Vec<&'static str>> = RefCell::new(Vec::new());
    }
    pub fn load(t: Vec<Vec<u8>>) {
        TAPE.with(|c| *c.borrow_mut() = (t, 0));
    }
    pub fn next(buf: &mut [u8]) {
        TAPE.with(|c| {
            let mut c = c.borrow_mut();
            let i = c.1;
            c.1 += 1;
            if let Some(v) = c.0.get(i) {
                for (k, b) in buf.iter_mut().enumerate() {
                    *b = v.get(k).copied().unwrap_or(0);
                }
            } else {
                // tape exhausted: zeros (Kani omits values the counterexample does not depend on)
                for b in buf.iter_mut() {
                    *b = 0;
                }
            }
        });
    }
    pub fn assume_failed(what: &str) -> ! {
        eprintln!("REPLAY-ASSUME-FAILED: {what}");
        std::process::exit(3);
    }
    pub fn cover(name: &'static str) {
        COVERS.with(|c| c.borrow_mut().push(name));
    }
    pub fn covers() -> Vec<&'static str> {
        COVERS.with(|c| c.borrow().clone())
    }
}

pub trait Prim: Sized {
    fn any() -> Self;
}

macro_rules! prim_int {
    ($($t:ty),*) => {$(
        impl Prim for $t {
            #[cfg(kani)]
            #[inline(always)]
            fn any() -> Self { kani::any() }
            #[cfg(not(kani))]
            fn any() -> Self {
                let mut b = [0u8; core::mem::size_of::<$t>()];
                tape::next(&mut b);
                <$t>::from_le_bytes(b)
            }
        }
    )*};
}
prim_int!(u8, u16, u32, u64, u128, usize, i8, i16, i32, i64, i128, isize);

impl Prim for bool {
    #[cfg(kani)]
    #[inline(always)]
    fn any() -> Self {
        kani::any()
    }
    #[cfg(not(kani))]
    fn any() -> Self {
        let mut b = [0u8; 1];
        tape::next(&mut b);
        b[0] & 1 == 1
    }
}

impl Prim for char {
    #[cfg(kani)]
    #[inline(always)]
    fn any() -> Self {
        kani::any()
    }
    #[cfg(not(kani))]
    fn any() -> Self {
        let mut b = [0u8; 4];
        tape::next(&mut b);
        match char::from_u32(u32::from_le_bytes(b)) {
            Some(c) => c,
            None => tape::assume_failed("invalid char on tape"),
        }
    }
}

impl Prim for () {
    fn any() -> Self {}
}

#[inline(always)]
pub fn any<T: Prim>() -> T {
    T::any()
}

/// `any::<u8>()` constrained to `< n`.
#[inline(always)]
pub fn below(n: u8) -> u8 {
    let v: u8 = any();
    assume(v < n);
    v
}

#[inline(always)]
pub fn assume(c: bool) {
    #[cfg(kani)]
    kani::assume(c);
    #[cfg(not(kani))]
    if !c {
        tape::assume_failed("kani::assume");
    }
}

/// Vacuity / reachability witness: the driver requires every `cov!` of a harness to be SATISFIED.
#[macro_export]
macro_rules! cov {
    ($cond:expr, $name:literal) => {{
        #[cfg(kani)]
        kani::cover!($cond, $name);
        #[cfg(not(kani))]
        if $cond {
            $crate::sym::tape::cover($name);
        }
    }};
}

/// Declares a harness. Under Kani: a `#[kani::proof]` with the given unwind bound (unwinding
/// assertions stay on). Natively: a plain function, listed in the generated `registry.rs`, that the
/// `replay` binary runs against a counterexample tape.
#[macro_export]
macro_rules! harness {
    ($name:ident, $unwind:literal, $body:block) => {
        #[cfg_attr(kani, kani::proof)]
        #[cfg_attr(kani, kani::unwind($unwind))]
        pub fn $name() $body
    };
    ($name:ident, $unwind:literal, should_panic, $body:block) => {
        #[cfg_attr(kani, kani::proof)]
        #[cfg_attr(kani, kani::unwind($unwind))]
        #[cfg_attr(kani, kani::should_panic)]
        pub fn $name() $body
    };
}
