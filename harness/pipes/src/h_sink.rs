//! C14: sink adaptors deliver every item exactly once, in order, to the sink it is addressed to, for
//! every readiness pattern; `start_send` only after `poll_ready` succeeded; lazy sinks initialise at
//! most once and lose nothing sent before/during initialisation.
use core::cell::Cell;
use core::convert::Infallible;
use core::future::Future;
use core::pin::{Pin, pin};
use core::task::{Context, Poll, Waker};

use sinktools::lazy::LazySink;
use sinktools::{Sink, SinkBuild, SinkBuilder};

use crate::script::Seq;
use crate::ssnk::*;
use crate::sym::{any, assume};
use crate::{cov, harness};

/// retry bound of the caller loops (see h_push.rs): scripted pendings + 2
const fn r(n: usize, sinks: usize) -> usize {
    2 * n * sinks + 2
}
fn items3() -> [u8; 3] {
    [any(), any(), any()]
}
fn seq_of<T: Copy + Default + PartialEq>(xs: &[T]) -> Seq<T> {
    let mut s = Seq::new();
    let mut i = 0;
    while i < xs.len() {
        s.push(xs[i]);
        i += 1;
    }
    s
}

harness!(c14_map_filter_inspect, 10, {
    let xs = items3();
    let mut d = SSnk::<u8, 3>::sym();
    let seen = Cell::new(0u8);
    {
        let s = SinkBuilder::<u8>::new().map(|x: u8| x.wrapping_add(7)).filter(|x: &u8| x & 1 == 0).inspect(|_x: &u8| seen.set(seen.get() + 1)).send_to(&mut d);
        sfeed(pin!(s).as_mut(), &xs, r(3, 1), true);
    }
    let mut w = Seq::new();
    for x in xs {
        let y = x.wrapping_add(7);
        if y & 1 == 0 {
            w.push(y);
        }
    }
    d.check(&w);
    assert!(d.closed, "C14 downstream sink was not closed");
    assert!(seen.get() as usize == w.len, "C14 inspect not called once per delivered item");
    cov!(w.len == 2 && d.ready_pendings_seen >= 1 && d.flush_pendings_seen >= 1, "two delivered with pendings");
});
harness!(c14_filter_map, 10, {
    let xs = items3();
    let mut d = SSnk::<u8, 3>::sym();
    {
        let s = SinkBuilder::<u8>::new().filter_map(|x: u8| if x >= 100 { Some(x - 100) } else { None }).send_to(&mut d);
        sfeed(pin!(s).as_mut(), &xs, r(3, 1), false);
    }
    let mut w = Seq::new();
    for x in xs {
        if x >= 100 {
            w.push(x - 100);
        }
    }
    d.check(&w);
    assert!(d.flushed_after_last_send, "C14 flush completed but the downstream was not flushed after its last item");
    cov!(w.len == 1, "one passes");
});
fn sflat_map_check<const N: usize>() {
    let xs: [u8; 2] = [any(), any()];
    let mut d = SSnk::<u8, N>::sym();
    {
        let s = SinkBuilder::<u8>::new().flat_map(|x: u8| (0..(x % 3)).map(move |j| x.wrapping_add(j))).send_to(&mut d);
        sfeed(pin!(s).as_mut(), &xs, r(N, 1), true);
    }
    let mut w = Seq::new();
    for x in xs {
        let mut j = 0;
        while j < x % 3 {
            w.push(x.wrapping_add(j));
            j += 1;
        }
    }
    d.check(&w);
    cov!(w.len == 4 && d.ready_pendings_seen >= 2, "four outputs across two pendings");
}
//@ heavy=1
harness!(c14_flat_map, 8, { sflat_map_check::<2>(); });
//@ heavy=1 tier=thorough
harness!(c14_flat_map_3, 10, { sflat_map_check::<3>(); });
fn sflatten_check<const N: usize>() {
    let xs: [[u8; 2]; 2] = [[any(), any()], [any(), any()]];
    let mut d = SSnk::<u8, N>::sym();
    {
        let s = SinkBuilder::<[u8; 2]>::new().flatten::<[u8; 2]>().send_to(&mut d);
        sfeed(pin!(s).as_mut(), &xs, r(N, 1), true);
    }
    d.check(&seq_of(&[xs[0][0], xs[0][1], xs[1][0], xs[1][1]]));
    cov!(d.ready_pendings_seen >= 2, "two pendings");
}
//@ heavy=1
harness!(c14_flatten, 8, { sflatten_check::<2>(); });
//@ heavy=1 tier=thorough
harness!(c14_flatten_3, 10, { sflatten_check::<3>(); });
harness!(c14_unzip, 12, {
    let xs: [(u8, u16); 2] = [(any(), any()), (any(), any())];
    let (mut a, mut b) = (SSnk::<u8, 2>::sym(), SSnk::<u16, 2>::sym());
    {
        let s = SinkBuilder::<(u8, u16)>::new().unzip(&mut a, &mut b);
        sfeed(pin!(s).as_mut(), &xs, r(2, 2), true);
    }
    a.check(&seq_of(&[xs[0].0, xs[1].0]));
    b.check(&seq_of(&[xs[0].1, xs[1].1]));
    assert!(a.closed && b.closed, "C14 a downstream sink was not closed");
    cov!(a.ready_pendings_seen >= 1 && b.flush_pendings_seen >= 1, "pendings on both");
});
harness!(c14_demux_var, 16, {
    let (i0, i1, i2): (usize, usize, usize) = (any(), any(), any());
    assume(i0 < 3 && i1 < 3 && i2 < 3);
    let xs: [(usize, u8); 3] = [(i0, any()), (i1, any()), (i2, any())];
    let (mut a, mut b, mut c) = (SSnk::<u8, 2>::sym(), SSnk::<u8, 2>::sym(), SSnk::<u8, 2>::sym());
    {
        let s = SinkBuilder::<(usize, u8)>::new().demux_var::<_, u8, Infallible>((&mut a, (&mut b, (&mut c, ()))));
        sfeed(pin!(s).as_mut(), &xs, r(2, 3), true);
    }
    let mut w = [Seq::<u8>::new(), Seq::new(), Seq::new()];
    for (i, x) in xs {
        w[i].push(x);
    }
    a.check(&w[0]);
    b.check(&w[1]);
    c.check(&w[2]);
    assert!(a.closed && b.closed && c.closed, "C14 a downstream sink was not closed");
    cov!(w[1].len == 2 && w[2].len == 1 && b.ready_pendings_seen >= 1, "routing with a pending");
});
harness!(c14_for_each_try_for_each, 8, {
    let xs = items3();
    let seen = Cell::new(Seq::<u8>::new());
    {
        let s = SinkBuilder::<u8>::new().for_each(|x: u8| { let mut s = seen.get(); s.push(x); seen.set(s); });
        sfeed(pin!(s).as_mut(), &xs, 2, true);
    }
    let s = seen.get();
    assert!(s.len == 3 && s.get(0) == xs[0] && s.get(1) == xs[1] && s.get(2) == xs[2], "C14 for_each not called once per item in order");
    let cnt = Cell::new(0u8);
    {
        let t = SinkBuilder::<u8>::new().try_for_each(|_x: u8| -> Result<(), Infallible> { cnt.set(cnt.get() + 1); Ok(()) });
        sfeed(pin!(t).as_mut(), &xs, 2, false);
    }
    assert!(cnt.get() == 3, "C14 try_for_each not called once per item");
    cov!(true, "reached end");
});

fn poll_n<F: Future>(mut f: Pin<&mut F>, n: usize) -> Option<F::Output> {
    let mut cx = Context::from_waker(Waker::noop());
    let mut k = 0;
    while k < n {
        if let Poll::Ready(v) = f.as_mut().poll(&mut cx) {
            return Some(v);
        }
        k += 1;
    }
    None
}
harness!(c14_send_iter, 10, {
    let xs = items3();
    let mut d = SSnk::<u8, 3>::sym();
    {
        let fut = sinktools::send_iter(xs, &mut d);
        let r = poll_n(pin!(fut).as_mut(), 8);
        assert!(matches!(r, Some(Ok(()))), "C14 send_iter did not complete");
    }
    d.check(&seq_of(&xs));
    assert!(d.flushed_after_last_send, "C14 send_iter completed without flushing the sink");
    cov!(d.ready_pendings_seen >= 2 && d.flush_pendings_seen >= 1, "pendings");
});

// ---------------------------------------------------------------------------------- lazy sink
/// init future: `pend` Pending answers, then Ready(Ok(sink)); counts polls
struct Init<'a, const N: usize> {
    pend: u8,
    sink: Option<&'a mut SSnk<u8, N>>,
    polls: &'a Cell<u8>,
}
impl<'a, const N: usize> Future for Init<'a, N> {
    type Output = Result<&'a mut SSnk<u8, N>, Infallible>;
    fn poll(self: Pin<&mut Self>, _cx: &mut Context<'_>) -> Poll<Self::Output> {
        let this = self.get_mut();
        this.polls.set(this.polls.get() + 1);
        if this.pend > 0 {
            this.pend -= 1;
            Poll::Pending
        } else {
            Poll::Ready(Ok(this.sink.take().expect("C14 lazy init future polled after completion")))
        }
    }
}
/// NI = max items, N = scripted pendings per poll kind of the inner sink, NP = max pendings of the init future
fn lazy_check<const NI: usize, const N: usize, const NP: u8>() {
    let n: usize = any();
    assume(n <= NI);
    let xs = items3();
    let pend: u8 = any();
    assume(pend <= NP);
    let mut d = SSnk::<u8, N>::sym();
    let created = Cell::new(0u8);
    let polls = Cell::new(0u8);
    {
        let dref = &mut d;
        let lazy = LazySink::<_, _, _, u8>::new(|| {
            created.set(created.get() + 1);
            Init::<N> { pend, sink: Some(dref), polls: &polls }
        });
        sfeed(pin!(lazy).as_mut(), &xs[..n], r(N, 1) + NP as usize, true);
    }
    assert!(created.get() <= 1, "C14 lazy sink initialised more than once");
    assert!((created.get() == 1) == (n > 0), "C14 lazy sink initialised although nothing was sent (or not initialised although something was)");
    d.check(&seq_of(&xs[..n]));
    assert!(n == 0 || d.closed, "C14 lazy sink: inner sink not closed");
    cov!(n == NI && pend == NP && d.ready_pendings_seen >= 1, "first item buffered across a pending init and a pending ready");
    cov!(n == 0, "nothing sent: never initialised");
}
//@ heavy=1
harness!(c14_lazy_sink, 9, { lazy_check::<2, 2, 1>(); });
// (lazy_check::<3, 3, 2> needs > 20 min / > 12 GB in CBMC: not kept, DESIGN §7 budget honesty)

// ---------------------------------------------------------------------------------- send_stream / LazySource
use crate::script::{Src, T_END, T_PEND, T_READY};
use dfir_pipes::pull::{Pull, PullStep};
use sinktools::lazy::LazySource;
use dfir_pipes::Stream;

/// scripted `futures::Stream` over the `Src` script
struct SStr<const N: usize>(Src<N>, u8);
impl<const N: usize> Stream for SStr<N> {
    type Item = u8;
    fn poll_next(self: Pin<&mut Self>, _cx: &mut Context<'_>) -> Poll<Option<u8>> {
        let this = self.get_mut();
        this.1 = this.1.saturating_add(1);
        match Pin::new(&mut this.0).pull(&mut ()) {
            PullStep::Ready(x, ()) => Poll::Ready(Some(x)),
            PullStep::Pending(_) => Poll::Pending,
            PullStep::Ended(_) => Poll::Ready(None),
        }
    }
}
harness!(c14_send_stream, 12, {
    let s = Src::<3>::sym();
    let want = s.reference();
    let mut d = SSnk::<u8, 2>::sym();
    {
        let fut = sinktools::send_stream(SStr(s, 0), &mut d);
        let r = poll_n(pin!(fut).as_mut(), 3 + 2 + 2 + 2);
        assert!(matches!(r, Some(Ok(()))), "C14 send_stream did not complete");
    }
    d.check(&want);
    assert!(d.flushed_after_last_send, "C14 send_stream completed without flushing the sink");
    cov!(d.ready_pendings_seen >= 1 && want.len >= 2, "sink pending and two items");
});

/// init future of a lazy source: `pend` pendings, then the scripted stream
struct InitSrc<const N: usize> {
    pend: u8,
    stream: Option<SStr<N>>,
}
impl<const N: usize> Future for InitSrc<N> {
    type Output = Result<SStr<N>, Infallible>;
    fn poll(self: Pin<&mut Self>, _cx: &mut Context<'_>) -> Poll<Self::Output> {
        let this = self.get_mut();
        if this.pend > 0 {
            this.pend -= 1;
            Poll::Pending
        } else {
            Poll::Ready(Ok(this.stream.take().expect("C14 lazy source init future polled after completion")))
        }
    }
}
harness!(c14_lazy_source, 12, {
    let s = Src::<3>::sym();
    let want = s.reference();
    let pend: u8 = any();
    assume(pend <= 2);
    let created = Cell::new(0u8);
    let lazy = LazySource::new(|| {
        created.set(created.get() + 1);
        InitSrc::<3> { pend, stream: Some(SStr(s, 0)) }
    });
    let mut lazy = pin!(lazy);
    let mut cx = Context::from_waker(Waker::noop());
    let mut got = 0usize;
    let mut ended = false;
    let mut k = 0;
    while k < 3 + 2 + 2 {
        match lazy.as_mut().poll_next(&mut cx) {
            Poll::Ready(Some(x)) => {
                assert!(got < want.len && x == want.get(got), "C14 lazy source: item differs from the inner stream's (value or order)");
                got += 1;
            }
            Poll::Ready(None) => {
                assert!(got == want.len, "C14 lazy source ended before the inner stream's items were delivered");
                ended = true;
                break;
            }
            Poll::Pending => {}
        }
        k += 1;
    }
    assert!(ended, "C14 lazy source did not end");
    assert!(created.get() == 1, "C14 lazy source initialised more (or less) than once");
    cov!(pend == 2 && got >= 2, "two init pendings then two items");
});
