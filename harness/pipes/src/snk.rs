//! Scripted downstream `Push`: per-poll answers (`Done`/`Pending`) of `poll_ready` and
//! `poll_finalize` are symbolic; it asserts the push protocol itself and records what it received.
use core::pin::Pin;

use dfir_pipes::Yes;
use dfir_pipes::push::{Push, PushStep};

use crate::script::Seq;
use crate::sym::any;

#[derive(Clone, Copy, Debug)]
pub struct Snk<T: Copy + Default + PartialEq, const N: usize> {
    pub ready_pend: [bool; N],
    pub fin_pend: [bool; N],
    pub rp: usize,
    pub fp: usize,
    /// readiness granted by the last `poll_ready` and not yet consumed by a `start_send`
    pub is_ready: bool,
    pub finalized: bool,
    pub got: Seq<T>,
    pub ready_pendings_seen: u8,
    pub fin_pendings_seen: u8,
    /// O1: polls after this downstream had answered `Done` to `poll_finalize` (tolerated: idempotent)
    pub polls_after_finalize: u8,
}
impl<T: Copy + Default + PartialEq, const N: usize> Snk<T, N> {
    pub fn sym() -> Self {
        let mut ready_pend = [false; N];
        let mut fin_pend = [false; N];
        let mut i = 0;
        while i < N {
            ready_pend[i] = any();
            fin_pend[i] = any();
            i += 1;
        }
        Snk { ready_pend, fin_pend, rp: 0, fp: 0, is_ready: false, finalized: false, got: Seq::new(), ready_pendings_seen: 0, fin_pendings_seen: 0, polls_after_finalize: 0 }
    }
    /// after the run: finalized, and received exactly `want` in order
    pub fn check(&self, want: &Seq<T>) {
        assert!(self.finalized, "C12 a downstream was never finalized although the combinator reported Done");
        assert!(self.got.len == want.len, "C12 downstream received a different number of items than the reference");
        let mut i = 0;
        while i < want.len {
            assert!(self.got.get(i) == want.get(i), "C12 downstream item differs from the reference (value or order)");
            i += 1;
        }
    }
}
impl<T: Copy + Default + PartialEq + Unpin, const N: usize> Push<T, ()> for Snk<T, N> {
    type Ctx<'ctx> = ();
    type CanPend = Yes;
    fn poll_ready(self: Pin<&mut Self>, _ctx: &mut ()) -> PushStep<Yes> {
        let this = self.get_mut();
        if this.finalized {
            this.polls_after_finalize = this.polls_after_finalize.saturating_add(1);
            return PushStep::Done;
        }
        if this.is_ready {
            // readiness is sticky until consumed (like every shipped sink)
            return PushStep::Done;
        }
        if this.rp < N {
            let pend = this.ready_pend[this.rp];
            this.rp += 1;
            if pend {
                this.ready_pendings_seen += 1;
                return PushStep::Pending(Yes);
            }
        }
        this.is_ready = true;
        PushStep::Done
    }
    fn start_send(self: Pin<&mut Self>, item: T, _meta: ()) {
        let this = self.get_mut();
        assert!(!this.finalized, "C12 start_send after the downstream was finalized");
        assert!(this.is_ready, "C12 start_send without a preceding Done from this downstream's poll_ready");
        this.is_ready = false;
        this.got.push(item);
    }
    fn poll_finalize(self: Pin<&mut Self>, _ctx: &mut ()) -> PushStep<Yes> {
        let this = self.get_mut();
        if this.finalized {
            this.polls_after_finalize = this.polls_after_finalize.saturating_add(1);
            return PushStep::Done;
        }
        if this.fp < N {
            let pend = this.fin_pend[this.fp];
            this.fp += 1;
            if pend {
                this.fin_pendings_seen += 1;
                return PushStep::Pending(Yes);
            }
        }
        this.finalized = true;
        PushStep::Done
    }
    fn size_hint(self: Pin<&mut Self>, _hint: (usize, Option<usize>)) {}
}

/// The canonical caller: for every item poll_ready until Done, start_send; then poll_finalize until
/// Done. `retries` bounds each wait (total scripted pendings + 1 is always enough).
pub fn feed<P, I>(mut p: Pin<&mut P>, items: &[I], retries: usize)
where
    P: for<'c> Push<I, (), Ctx<'c> = ()>,
    I: Copy,
{
    let mut i = 0;
    while i < items.len() {
        let mut k = 0;
        let mut ok = false;
        while k < retries {
            if p.as_mut().poll_ready(&mut ()).is_done() {
                ok = true;
                break;
            }
            k += 1;
        }
        assert!(ok, "C12 poll_ready never became Done although every downstream ran out of pendings");
        p.as_mut().start_send(items[i], ());
        i += 1;
    }
    let mut k = 0;
    let mut ok = false;
    while k < retries {
        if p.as_mut().poll_finalize(&mut ()).is_done() {
            ok = true;
            break;
        }
        k += 1;
    }
    assert!(ok, "C12 poll_finalize never became Done although every downstream ran out of pendings");
}
