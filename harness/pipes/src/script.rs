//! Scripted environments: a `Pull` source whose k-th answer (Ready(item) | Pending | Ended) is a
//! symbolic tag, so ONE solver query covers every placement of pendings and every item value up to
//! the script length. Plus the caller loop that drives a combinator and checks it against a reference.
use core::pin::Pin;

use dfir_pipes::pull::{FusedPull, Pull, PullStep};
use dfir_pipes::Yes;

use crate::sym::{any, assume};

pub const T_READY: u8 = 0;
pub const T_PEND: u8 = 1;
pub const T_END: u8 = 2;

/// Fused scripted source of `u8` items. After the script is exhausted (or after an `Ended` tag) it
/// reports `Ended` forever and counts how often it was polled after its end.
#[derive(Clone, Copy, Debug)]
pub struct Src<const N: usize> {
    pub tags: [u8; N],
    pub items: [u8; N],
    pub pos: usize,
    pub ended: bool,
    pub polls_after_end: u8,
    pub polls: u8,
    /// honest but loose size hints (symbolic): lower bound = exact - slo, upper = exact + shi, shi == 2: None
    pub slo: u8,
    pub shi: u8,
}
impl<const N: usize> Src<N> {
    /// fully symbolic script
    pub fn sym() -> Self {
        let mut tags = [0u8; N];
        let mut items = [0u8; N];
        let mut i = 0;
        while i < N {
            let t: u8 = any();
            assume(t <= T_END);
            tags[i] = t;
            items[i] = any();
            i += 1;
        }
        let (slo, shi): (u8, u8) = (any(), any());
        assume(slo <= 1 && shi <= 2);
        Src { tags, items, pos: 0, ended: false, polls_after_end: 0, polls: 0, slo, shi }
    }
    /// the items this source will ever produce (the reference subsequence), in order
    pub fn reference(&self) -> Seq {
        let mut s = Seq::new();
        let mut i = 0;
        while i < N {
            if self.tags[i] == T_END {
                break;
            }
            if self.tags[i] == T_READY {
                s.push(self.items[i]);
            }
            i += 1;
        }
        s
    }
    pub fn pendings(&self) -> usize {
        let mut n = 0;
        let mut i = 0;
        while i < N {
            if self.tags[i] == T_END {
                break;
            }
            if self.tags[i] == T_PEND {
                n += 1;
            }
            i += 1;
        }
        n
    }
    fn remaining_ready(&self) -> usize {
        if self.ended {
            return 0;
        }
        let mut n = 0;
        let mut i = self.pos;
        while i < N {
            if self.tags[i] == T_END {
                break;
            }
            if self.tags[i] == T_READY {
                n += 1;
            }
            i += 1;
        }
        n
    }
}
impl<const N: usize> Pull for Src<N> {
    type Ctx<'ctx> = ();
    type Item = u8;
    type Meta = ();
    type CanPend = Yes;
    type CanEnd = Yes;
    fn pull(self: Pin<&mut Self>, _ctx: &mut ()) -> PullStep<u8, (), Yes, Yes> {
        let this = self.get_mut();
        this.polls = this.polls.saturating_add(1);
        if this.ended || this.pos >= N {
            if this.ended {
                this.polls_after_end = this.polls_after_end.saturating_add(1);
            }
            this.ended = true;
            return PullStep::Ended(Yes);
        }
        let (t, x) = (this.tags[this.pos], this.items[this.pos]);
        this.pos += 1;
        if t == T_READY {
            PullStep::Ready(x, ())
        } else if t == T_PEND {
            PullStep::Pending(Yes)
        } else {
            this.ended = true;
            PullStep::Ended(Yes)
        }
    }
    /// any honest hint around the exact count (slo = shi = 0 is the exact one): the combinators' hint
    /// arithmetic is exercised with exact, loose and unbounded upstream hints (seeded S-C11c needs an upstream
    /// whose hint does not prove it empty although it produces nothing)
    fn size_hint(&self) -> (usize, Option<usize>) {
        let r = self.remaining_ready();
        (r.saturating_sub(self.slo as usize), if self.shi >= 2 { None } else { Some(r + self.shi as usize) })
    }
}
impl<const N: usize> FusedPull for Src<N> {}

/// An *unfused* scripted source: the script simply continues after an `Ended` tag (a later tag may
/// be `Ready` again). Used to check that `Fuse` really fuses. Ends for good when the script is used up.
#[derive(Clone, Copy, Debug)]
pub struct SrcU<const N: usize> {
    pub tags: [u8; N],
    pub items: [u8; N],
    pub pos: usize,
    pub polls_after_first_end: u8,
    pub seen_end: bool,
}
impl<const N: usize> SrcU<N> {
    pub fn sym() -> Self {
        let s = Src::<N>::sym();
        SrcU { tags: s.tags, items: s.items, pos: 0, polls_after_first_end: 0, seen_end: false }
    }
    pub fn reference(&self) -> Seq {
        Src { tags: self.tags, items: self.items, pos: 0, ended: false, polls_after_end: 0, polls: 0, slo: 0, shi: 0 }.reference()
    }
}
impl<const N: usize> Pull for SrcU<N> {
    type Ctx<'ctx> = ();
    type Item = u8;
    type Meta = ();
    type CanPend = Yes;
    type CanEnd = Yes;
    fn pull(self: Pin<&mut Self>, _ctx: &mut ()) -> PullStep<u8, (), Yes, Yes> {
        let this = self.get_mut();
        if this.seen_end {
            this.polls_after_first_end = this.polls_after_first_end.saturating_add(1);
        }
        if this.pos >= N {
            this.seen_end = true;
            return PullStep::Ended(Yes);
        }
        let (t, x) = (this.tags[this.pos], this.items[this.pos]);
        this.pos += 1;
        if t == T_READY {
            PullStep::Ready(x, ())
        } else if t == T_PEND {
            PullStep::Pending(Yes)
        } else {
            this.seen_end = true;
            PullStep::Ended(Yes)
        }
    }
    fn size_hint(&self) -> (usize, Option<usize>) {
        (0, Some(N - self.pos))
    }
}

/// Fixed-capacity sequence (reference outputs / collected outputs).
pub const C: usize = 16;
#[derive(Clone, Copy, Debug)]
pub struct Seq<T: Copy + Default = u8> {
    pub v: [T; C],
    pub len: usize,
}
impl<T: Copy + Default + PartialEq> Seq<T> {
    pub fn new() -> Self {
        Seq { v: [T::default(); C], len: 0 }
    }
    pub fn push(&mut self, x: T) {
        assert!(self.len < C, "Seq capacity (harness sizing error)");
        self.v[self.len] = x;
        self.len += 1;
    }
    pub fn get(&self, i: usize) -> T {
        self.v[i]
    }
}
impl<T: Copy + Default + PartialEq> Default for Seq<T> {
    fn default() -> Self {
        Self::new()
    }
}
impl<T: Copy + Default + PartialEq> Extend<T> for Seq<T> {
    fn extend<I: IntoIterator<Item = T>>(&mut self, iter: I) {
        for x in iter {
            self.push(x);
        }
    }
}

pub struct Outcome {
    pub produced: usize,
    pub ended: bool,
    pub pendings: usize,
}

/// The canonical caller loop. Pulls `steps` times; checks against the reference sequence `want`:
/// * the k-th `Ready` carries `want[k]` (same items, same order, nothing extra);
/// * every observed `size_hint()` brackets the number of items still to come;
/// * `Ended` only once all `want` items were produced; with `fused`, `Ended` is sticky.
pub fn drive<P, T>(mut p: Pin<&mut P>, want: &Seq<T>, steps: usize, fused: bool) -> Outcome
where
    P: for<'c> Pull<Ctx<'c> = (), Item = T>,
    T: Copy + Default + PartialEq,
{
    let mut produced = 0usize;
    let mut ended = false;
    let mut pendings = 0usize;
    let mut k = 0;
    while k < steps {
        if !ended {
            let (lo, hi) = p.as_ref().get_ref().size_hint();
            let remaining = want.len - produced;
            assert!(lo <= remaining, "C11 size_hint lower bound exceeds the number of items still produced");
            assert!(hi.is_none_or(|h| remaining <= h), "C11 size_hint upper bound is below the number of items still produced");
        }
        match p.as_mut().pull(&mut ()) {
            PullStep::Ready(item, _) => {
                assert!(!(fused && ended), "C11 fused pull produced an item after it had ended");
                assert!(produced < want.len, "C11 produced more items than the reference iterator adapter");
                assert!(item == want.get(produced), "C11 item differs from the reference iterator adapter (value or order)");
                produced += 1;
                if ended {
                    ended = false;
                }
            }
            PullStep::Pending(_) => {
                assert!(!(fused && ended), "C11 fused pull reported Pending after it had ended");
                pendings += 1;
            }
            PullStep::Ended(_) => {
                assert!(produced == want.len, "C11 ended before all reference items were produced");
                ended = true;
                if !fused {
                    // a pull that does not claim `FusedPull` must not be polled again after its end
                    break;
                }
            }
        }
        k += 1;
    }
    Outcome { produced, ended, pendings }
}
