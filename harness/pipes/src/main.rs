#[cfg(not(kani))]
use vpipes::sym;
#[cfg(not(kani))]
include!("registry.rs");
#[cfg(not(kani))]
include!("../../common/replay_main.rs");
#[cfg(kani)]
fn main() {}
