//! Scripted `futures::Sink`: symbolic `Ready`/`Pending` answers for poll_ready / poll_flush /
//! poll_close; asserts the Sink protocol (start_send only after its own poll_ready was Ready) and
//! records what it received.
use core::convert::Infallible;
use core::pin::Pin;
use core::task::{Context, Poll, Waker};

use sinktools::Sink;

use crate::script::Seq;
use crate::sym::any;

#[derive(Clone, Copy, Debug)]
pub struct SSnk<T: Copy + Default + PartialEq, const N: usize> {
    pub ready_pend: [bool; N],
    pub flush_pend: [bool; N],
    pub rp: usize,
    pub fp: usize,
    pub is_ready: bool,
    pub closed: bool,
    pub flushed_after_last_send: bool,
    pub got: Seq<T>,
    pub ready_pendings_seen: u8,
    pub flush_pendings_seen: u8,
}
impl<T: Copy + Default + PartialEq, const N: usize> SSnk<T, N> {
    pub fn sym() -> Self {
        let mut ready_pend = [false; N];
        let mut flush_pend = [false; N];
        let mut i = 0;
        while i < N {
            ready_pend[i] = any();
            flush_pend[i] = any();
            i += 1;
        }
        SSnk { ready_pend, flush_pend, rp: 0, fp: 0, is_ready: false, closed: false, flushed_after_last_send: true, got: Seq::new(), ready_pendings_seen: 0, flush_pendings_seen: 0 }
    }
    pub fn check(&self, want: &Seq<T>) {
        assert!(self.got.len == want.len, "C14 sink received a different number of items than the reference");
        let mut i = 0;
        while i < want.len {
            assert!(self.got.get(i) == want.get(i), "C14 sink item differs from the reference (value or order)");
            i += 1;
        }
    }
}
impl<T: Copy + Default + PartialEq + Unpin, const N: usize> Sink<T> for SSnk<T, N> {
    type Error = Infallible;
    fn poll_ready(self: Pin<&mut Self>, _cx: &mut Context<'_>) -> Poll<Result<(), Infallible>> {
        let this = self.get_mut();
        if this.is_ready {
            return Poll::Ready(Ok(()));
        }
        if this.rp < N {
            let pend = this.ready_pend[this.rp];
            this.rp += 1;
            if pend {
                this.ready_pendings_seen += 1;
                return Poll::Pending;
            }
        }
        this.is_ready = true;
        Poll::Ready(Ok(()))
    }
    fn start_send(self: Pin<&mut Self>, item: T) -> Result<(), Infallible> {
        let this = self.get_mut();
        assert!(!this.closed, "C14 start_send after the sink was closed");
        assert!(this.is_ready, "C14 start_send without a preceding Ready(Ok) from this sink's poll_ready");
        this.is_ready = false;
        this.flushed_after_last_send = false;
        this.got.push(item);
        Ok(())
    }
    fn poll_flush(self: Pin<&mut Self>, _cx: &mut Context<'_>) -> Poll<Result<(), Infallible>> {
        let this = self.get_mut();
        if this.fp < N {
            let pend = this.flush_pend[this.fp];
            this.fp += 1;
            if pend {
                this.flush_pendings_seen += 1;
                return Poll::Pending;
            }
        }
        this.flushed_after_last_send = true;
        Poll::Ready(Ok(()))
    }
    fn poll_close(mut self: Pin<&mut Self>, cx: &mut Context<'_>) -> Poll<Result<(), Infallible>> {
        match self.as_mut().poll_flush(cx) {
            Poll::Pending => Poll::Pending,
            Poll::Ready(r) => {
                self.get_mut().closed = true;
                Poll::Ready(r)
            }
        }
    }
}

/// Canonical `SinkExt::send`-style caller, no executor: for every item poll_ready until Ready,
/// start_send; then poll_flush until Ready (and poll_close until Ready when `close`).
pub fn sfeed<S, I>(mut s: Pin<&mut S>, items: &[I], retries: usize, close: bool)
where
    S: Sink<I>,
    I: Copy,
{
    let mut cx = Context::from_waker(Waker::noop());
    let mut i = 0;
    while i < items.len() {
        let mut k = 0;
        let mut ok = false;
        while k < retries {
            match s.as_mut().poll_ready(&mut cx) {
                Poll::Ready(r) => {
                    assert!(r.is_ok(), "C14 unexpected sink error");
                    ok = true;
                    break;
                }
                Poll::Pending => {}
            }
            k += 1;
        }
        assert!(ok, "C14 poll_ready never became Ready although every sink ran out of pendings");
        assert!(s.as_mut().start_send(items[i]).is_ok(), "C14 unexpected sink error");
        i += 1;
    }
    let mut k = 0;
    let mut ok = false;
    while k < retries {
        let r = if close { s.as_mut().poll_close(&mut cx) } else { s.as_mut().poll_flush(&mut cx) };
        if let Poll::Ready(r) = r {
            assert!(r.is_ok(), "C14 unexpected sink error");
            ok = true;
            break;
        }
        k += 1;
    }
    assert!(ok, "C14 flush/close never completed although every sink ran out of pendings");
}
