//! Kani harnesses over the real `dfir_pipes` / `sinktools` crates (path dependencies on /repo).
#![allow(clippy::all)]
#![allow(unused_imports, dead_code)]

#[path = "../../common/sym.rs"]
pub mod sym;

pub mod script;

include!("mods.rs");
