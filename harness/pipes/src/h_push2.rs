//! C12, Vec-backed and adapter pushes: sort, persist, vec_push, sink (Sink -> Push), sink_compat
//! (Push -> Sink). Item COUNTS are concrete (heap), item values and downstream answers symbolic.
use core::pin::{Pin, pin};
use core::task::{Context, Waker};

use dfir_pipes::push::{self, Push, PushStep};

use crate::script::Seq;
use crate::snk::*;
use crate::ssnk::*;
use crate::sym::any;
use crate::{cov, harness};

const fn r(n: usize) -> usize {
    2 * n + 2
}
fn seq_of<T: Copy + Default + PartialEq>(xs: &[T]) -> Seq<T> {
    let mut s = Seq::new();
    let mut i = 0;
    while i < xs.len() {
        s.push(xs[i]);
        i += 1;
    }
    s
}

harness!(c12_sort, 8, {
    let xs: [u8; 3] = [any(), any(), any()];
    let mut d = Snk::<u8, 2>::sym();
    feed(pin!(push::sort(&mut d)).as_mut(), &xs, r(2));
    // reference: ascending order, same multiset
    let mut w = xs;
    if w[0] > w[1] { w.swap(0, 1); }
    if w[1] > w[2] { w.swap(1, 2); }
    if w[0] > w[1] { w.swap(0, 1); }
    d.check(&seq_of(&w));
    cov!(d.ready_pendings_seen >= 1 && xs[0] > xs[1] && xs[1] > xs[2], "reverse-sorted input drained across a pending");
});
harness!(c12_persist_replay, 8, {
    let old: [u8; 2] = [any(), any()];
    let new: [u8; 1] = [any()];
    let mut buf = vec![old[0], old[1]];
    let mut d = Snk::<u8, 2>::sym();
    feed(pin!(push::persist_state(&mut buf, true, &mut d)).as_mut(), &new, r(2));
    d.check(&seq_of(&[old[0], old[1], new[0]]));
    assert!(buf.len() == 3 && buf[0] == old[0] && buf[1] == old[1] && buf[2] == new[0], "C12 persist: buffer != everything ever sent");
    cov!(d.ready_pendings_seen >= 2, "replay interrupted by pendings");
    core::mem::forget(buf);
});
harness!(c12_persist_no_replay, 8, {
    let old: [u8; 1] = [any()];
    let new: [u8; 2] = [any(), any()];
    let mut buf = vec![old[0]];
    let mut d = Snk::<u8, 2>::sym();
    feed(pin!(push::persist_state(&mut buf, false, &mut d)).as_mut(), &new, r(2));
    d.check(&seq_of(&new));
    assert!(buf.len() == 3 && buf[0] == old[0] && buf[1] == new[0] && buf[2] == new[1], "C12 persist: buffer != everything ever sent");
    cov!(d.fin_pendings_seen >= 1, "pending finalize");
    core::mem::forget(buf);
});
harness!(c12_vec_push, 6, {
    let xs: [u8; 3] = [any(), any(), any()];
    let mut buf: Vec<u8> = Vec::new();
    {
        let mut p = pin!(push::vec_push(&mut buf));
        let mut i = 0;
        while i < 3 {
            assert!(Push::<u8, ()>::poll_ready(p.as_mut(), &mut ()).is_done(), "C12 vec_push not ready");
            Push::<u8, ()>::start_send(p.as_mut(), xs[i], ());
            i += 1;
        }
        assert!(Push::<u8, ()>::poll_finalize(p.as_mut(), &mut ()).is_done(), "C12 vec_push finalize");
    }
    assert!(buf.len() == 3 && buf[0] == xs[0] && buf[1] == xs[1] && buf[2] == xs[2], "C12 vec_push: buffer != items sent, in order");
    cov!(true, "reached end");
    core::mem::forget(buf);
});
// push::sink: a futures Sink used as a Push (context = task context)
harness!(c12_sink_adapter, 10, {
    let xs: [u8; 2] = [any(), any()];
    let mut d = SSnk::<u8, 2>::sym();
    {
        let mut p = pin!(push::sink(&mut d));
        let mut cx = Context::from_waker(Waker::noop());
        let mut i = 0;
        while i < 2 {
            let mut k = 0;
            let mut ok = false;
            while k < r(2) {
                if Push::<u8, ()>::poll_ready(p.as_mut(), &mut cx).is_done() {
                    ok = true;
                    break;
                }
                k += 1;
            }
            assert!(ok, "C12 push::sink never became ready");
            Push::<u8, ()>::start_send(p.as_mut(), xs[i], ());
            i += 1;
        }
        let mut k = 0;
        let mut ok = false;
        while k < r(2) {
            if Push::<u8, ()>::poll_finalize(p.as_mut(), &mut cx).is_done() {
                ok = true;
                break;
            }
            k += 1;
        }
        assert!(ok, "C12 push::sink finalize never completed");
    }
    d.check(&seq_of(&xs));
    assert!(d.flushed_after_last_send, "C12 push::sink finalized without flushing the sink after its last item");
    cov!(d.ready_pendings_seen >= 1 && d.flush_pendings_seen >= 1, "pendings on ready and flush");
});
// push::sink_compat: a Push used as a futures Sink
harness!(c12_sink_compat, 10, {
    let xs: [u8; 2] = [any(), any()];
    let mut d = Snk::<u8, 2>::sym();
    {
        let s = push::sink_compat::<_, u8>(&mut d);
        sfeed(pin!(s).as_mut(), &xs, r(2), true);
    }
    d.check(&seq_of(&xs));
    cov!(d.ready_pendings_seen >= 1 && d.fin_pendings_seen >= 1, "pendings on ready and finalize");
});
