//! C13 (pull orchestration only): the real `SymmetricHashJoin::pull` state machine — interleaving of
//! `pop_match`, lhs pull, rhs pull, pending/ended handling — over two scripted inputs, instantiated
//! with a harness-side array-backed `HalfJoinState` implementing the documented contract (set and
//! multiset flavours). The shipped `HalfSetJoinState`/`HalfMultisetJoinState` are `FxHashMap`s and are
//! NOT encoded (DESIGN rule 3): a defect inside them is outside what this check can see.
use std::borrow::Cow;
use std::pin::pin;

use dfir_pipes::pull::{HalfJoinState, Pull, PullStep};
use smallvec::SmallVec;

use crate::script::*;
use crate::sym::any;
use crate::{cov, harness};

const CAP: usize = 8;
#[derive(Clone, Copy)]
pub struct ArrState<const SET: bool> {
    ents: [(u8, u8); CAP],
    len: usize,
    q: [(u8, u8, u8); CAP],
    qh: usize,
    qt: usize,
}
impl<const SET: bool> ArrState<SET> {
    pub fn new() -> Self {
        ArrState { ents: [(0, 0); CAP], len: 0, q: [(0, 0, 0); CAP], qh: 0, qt: 0 }
    }
}
impl<const SET: bool> HalfJoinState<u8, u8, u8> for ArrState<SET> {
    fn build(&mut self, k: u8, v: Cow<'_, u8>) -> bool {
        let v = *v;
        if SET {
            let mut i = 0;
            while i < self.len {
                if self.ents[i] == (k, v) {
                    return false;
                }
                i += 1;
            }
        }
        assert!(self.len < CAP, "ArrState capacity (harness sizing error)");
        self.ents[self.len] = (k, v);
        self.len += 1;
        true
    }
    fn probe(&mut self, k: &u8, v: &u8) -> Option<(u8, u8, u8)> {
        let mut first = None;
        let mut i = 0;
        while i < self.len {
            if self.ents[i].0 == *k {
                let m = (*k, *v, self.ents[i].1);
                if first.is_none() {
                    first = Some(m);
                } else {
                    assert!(self.qt < CAP, "ArrState match queue capacity (harness sizing error)");
                    self.q[self.qt] = m;
                    self.qt += 1;
                }
            }
            i += 1;
        }
        first
    }
    fn pop_match(&mut self) -> Option<(u8, u8, u8)> {
        if self.qh < self.qt {
            let m = self.q[self.qh];
            self.qh += 1;
            Some(m)
        } else {
            None
        }
    }
    fn len(&self) -> usize {
        self.len
    }
    fn iter(&self) -> std::collections::hash_map::Iter<'_, u8, SmallVec<[u8; 1]>> {
        unreachable!("HalfJoinState::iter is not used by SymmetricHashJoin::pull")
    }
    fn full_probe(&self, _k: &u8) -> std::slice::Iter<'_, u8> {
        unreachable!("HalfJoinState::full_probe is not used by SymmetricHashJoin::pull")
    }
    fn clear(&mut self) {
        *self = Self::new();
    }
}

fn kv(x: u8) -> (u8, u8) {
    (x & 1, x >> 1)
}
/// multiplicity of (k,v) among the entries a scripted source delivers; with SET capped at 1
fn mult<const SET: bool, const N: usize>(s: &Src<N>, k: u8, v: u8) -> usize {
    let mut n = 0;
    let mut i = 0;
    let mut live = true;
    while i < N {
        if s.tags[i] == T_END {
            live = false;
        }
        if live && s.tags[i] == T_READY && kv(s.items[i]) == (k, v) {
            n += 1;
        }
        i += 1;
    }
    if SET && n > 1 { 1 } else { n }
}

/// N = script length per side, OC = N*N = maximal number of results
fn join_check<const SET: bool, const N: usize, const OC: usize>(steps: usize) {
    join_check2::<SET, N, N, OC>(steps)
}
/// NL / NR = script length of the left / right input, OC = NL*NR
fn join_check2<const SET: bool, const NL: usize, const NR: usize, const OC: usize>(steps: usize) {
    let (l, r) = (Src::<NL>::sym(), Src::<NR>::sym());
    let (l0, r0) = (l, r);
    let (pl, pr) = (l.pendings(), r.pendings());
    let j = l.map(kv).symmetric_hash_join(r.map(kv), ArrState::<SET>::new(), ArrState::<SET>::new());
    let mut j = pin!(j);
    let mut out = [(0u8, 0u8, 0u8); OC];
    let mut nout = 0usize;
    let mut ended = false;
    // The caller's polls are written out (no loop): `SymmetricHashJoin::pull` has an inner `loop` that
    // CBMC must unroll to the harness-wide bound at every call site, so the bound is kept at the inner
    // loop's real maximum (inputs still to come + 1) instead of the number of polls.
    macro_rules! step {
        () => {
            if !ended {
                match j.as_mut().pull(&mut ()) {
                    PullStep::Ready((key, (v1, v2)), ()) => {
                        assert!(nout < OC, "C13 join produced more pairs than the product of the inputs");
                        out[nout] = (key, v1, v2);
                        nout += 1;
                    }
                    PullStep::Pending(_) => {}
                    PullStep::Ended(_) => ended = true,
                }
            }
        };
    }
    let _ = steps;
    step!(); step!(); step!(); step!(); step!(); step!(); step!(); step!(); step!(); step!();
    // polls needed <= inputs (NL + NR script entries) + outputs (NL * NR) + 1
    if NL > 2 {
        step!(); step!();
    }
    if NL > 2 && NR > 2 {
        step!(); step!(); step!(); step!(); step!();
    }
    // (`SymmetricHashJoin` does not claim `FusedPull`: it is not polled again after its end)
    assert!(ended, "C13 join did not end although both inputs ended");
    // (a) every emitted pair has exactly its expected multiplicity:
    //     (multiplicity of (k,v1) on the left) x (multiplicity of (k,v2) on the right)
    let p: usize = any();
    if p < nout {
        let (key, v1, v2) = out[p];
        let mut cnt = 0;
        let mut i = 0;
        while i < OC {
            if i < nout && out[i] == (key, v1, v2) {
                cnt += 1;
            }
            i += 1;
        }
        assert!(cnt == mult::<SET, NL>(&l0, key, v1) * mult::<SET, NR>(&r0, key, v2), "C13 a pair was emitted with the wrong multiplicity (repeated or spurious)");
    }
    // (b) nothing is missing: any delivered left entry and right entry with equal keys appear as an output
    let (a, b): (usize, usize) = (any(), any());
    if a < NL && b < NR {
        let ((k1, v1), (k2, v2)) = (kv(l0.items[a]), kv(r0.items[b]));
        if k1 == k2 && mult::<SET, NL>(&l0, k1, v1) > 0 && mult::<SET, NR>(&r0, k2, v2) > 0 {
            let mut found = false;
            let mut i = 0;
            while i < OC {
                if i < nout && out[i] == (k1, v1, v2) {
                    found = true;
                }
                i += 1;
            }
            assert!(found, "C13 a matching left/right pair was never emitted");
        }
    }
    cov!(nout + 1 >= NR && pl > 0 && pr > 0, "results with pendings on both sides");
    cov!(nout == 0 && mult::<SET, NL>(&l0, kv(l0.items[0]).0, kv(l0.items[0]).1) > 0 && mult::<SET, NR>(&r0, kv(r0.items[0]).0, kv(r0.items[0]).1) > 0, "no key in common");
}

//@ heavy=1
harness!(c13_join_set_2, 7, { join_check::<true, 2, 4>(10); });
//@ heavy=1
harness!(c13_join_multiset_2, 7, { join_check::<false, 2, 4>(10); });
// (3 symbolic script entries on BOTH sides exhaust 16 GB in CBMC: not kept; 3 x 2 is the thorough bound)
//@ heavy=1 tier=thorough
harness!(c13_join_set_3x2, 8, { join_check2::<true, 3, 2, 6>(17); });
//@ heavy=1 tier=thorough
harness!(c13_join_multiset_3x2, 8, { join_check2::<false, 3, 2, 6>(17); });
