//! C11, the combinators that need a task context: stream adapters (`stream`, `stream_compat`,
//! `stream_ready`, `flatten_stream`, `flat_map_stream`), `filter_map_async`, and the futures
//! `send_push` / `send_sink`. Inner streams/futures are scripted from the items' bits, so their
//! pendings are symbolic too. Everything is polled with `Waker::noop()` (no executor).
use core::future::Future;
use core::pin::{Pin, pin};
use core::task::{Context, Poll, Waker};

use dfir_pipes::pull::{self, FusedPull, Pull, PullStep};
use dfir_pipes::{FusedStream, Stream};

use crate::script::*;
use crate::snk::Snk;
use crate::ssnk::SSnk;
use crate::sym::{any, assume};
use crate::{cov, harness};

/// caller loop for pulls whose context is a task context; same oracle as `script::drive`
fn drive_cx<P, T>(mut p: Pin<&mut P>, want: &Seq<T>, steps: usize, fused: bool) -> Outcome
where
    P: for<'c> Pull<Ctx<'c> = Context<'c>, Item = T>,
    T: Copy + Default + PartialEq,
{
    let mut cx = Context::from_waker(Waker::noop());
    let mut produced = 0usize;
    let mut ended = false;
    let mut pendings = 0usize;
    let mut k = 0;
    while k < steps {
        if !ended {
            let (lo, hi) = p.as_ref().get_ref().size_hint();
            let remaining = want.len - produced;
            assert!(lo <= remaining, "C11 size_hint lower bound exceeds the number of items still produced");
            assert!(hi.is_none_or(|h| remaining <= h), "C11 size_hint upper bound is below the number of items still produced");
        }
        match p.as_mut().pull(&mut cx) {
            PullStep::Ready(item, _) => {
                assert!(!(fused && ended), "C11 fused pull produced an item after it had ended");
                assert!(produced < want.len, "C11 produced more items than the reference iterator adapter");
                assert!(item == want.get(produced), "C11 item differs from the reference iterator adapter (value or order)");
                produced += 1;
            }
            PullStep::Pending(_) => {
                assert!(!(fused && ended), "C11 fused pull reported Pending after it had ended");
                pendings += 1;
            }
            PullStep::Ended(_) => {
                assert!(produced == want.len, "C11 ended before all reference items were produced");
                ended = true;
                if !fused {
                    break;
                }
            }
        }
        k += 1;
    }
    assert!(ended && produced == want.len, "C11 did not deliver all reference items and end within the step bound");
    Outcome { produced, ended, pendings }
}

/// scripted fused `futures::Stream` (the `Src` script behind the Stream interface)
struct SStr<const N: usize>(Src<N>);
impl<const N: usize> Stream for SStr<N> {
    type Item = u8;
    fn poll_next(self: Pin<&mut Self>, _cx: &mut Context<'_>) -> Poll<Option<u8>> {
        match Pin::new(&mut self.get_mut().0).pull(&mut ()) {
            PullStep::Ready(x, ()) => Poll::Ready(Some(x)),
            PullStep::Pending(_) => Poll::Pending,
            PullStep::Ended(_) => Poll::Ready(None),
        }
    }
    fn size_hint(&self) -> (usize, Option<usize>) {
        self.0.size_hint()
    }
}
impl<const N: usize> FusedStream for SStr<N> {
    fn is_terminated(&self) -> bool {
        self.0.ended
    }
}

harness!(c11_stream_4, 12, {
    let s = Src::<4>::sym();
    let want = s.reference();
    let np = s.pendings();
    let p = pull::stream(SStr(s));
    let out = drive_cx(pin!(p).as_mut(), &want, 10, true);
    cov!(np >= 1 && out.produced >= 2, "a pending and two items");
});
harness!(c11_stream_compat_4, 12, {
    let s = Src::<4>::sym();
    let want = s.reference();
    let mut st = pin!(pull::stream_compat(s));
    let mut cx = Context::from_waker(Waker::noop());
    let mut produced = 0;
    let mut ended = false;
    let mut k = 0;
    while k < 6 {
        let (lo, hi) = Stream::size_hint(&*st);
        assert!(lo <= want.len - produced && hi.is_none_or(|h| want.len - produced <= h), "C11 stream_compat size_hint does not bracket");
        match st.as_mut().poll_next(&mut cx) {
            Poll::Ready(Some(x)) => {
                assert!(produced < want.len && x == want.get(produced), "C11 stream_compat item differs from the reference");
                produced += 1;
            }
            Poll::Ready(None) => {
                assert!(produced == want.len, "C11 stream_compat ended early");
                ended = true;
                break;
            }
            Poll::Pending => {}
        }
        k += 1;
    }
    assert!(ended, "C11 stream_compat did not end");
    cov!(produced == 4, "four items");
});
// stream_ready: a non-blocking view — a `Pending` of the stream ends the pull (documented: CanPend = No)
harness!(c11_stream_ready_4, 12, {
    let s = Src::<4>::sym();
    // reference: the items before the first Pending or End
    let mut want = Seq::new();
    let mut i = 0;
    while i < 4 {
        if s.tags[i] != T_READY {
            break;
        }
        want.push(s.items[i]);
        i += 1;
    }
    let p = pull::stream_ready(SStr(s), Waker::noop().clone());
    let mut p = pin!(p);
    let out = drive(p.as_mut(), &want, 6, false);
    assert!(out.ended && out.produced == want.len, "C11 stream_ready did not stop at the first non-ready answer");
    cov!(want.len == 2, "two ready items then a pending/end");
});

/// scripted future: `pend` Pending answers, then Ready(out)
struct Fut {
    pend: u8,
    out: Option<u8>,
}
impl Future for Fut {
    type Output = Option<u8>;
    fn poll(self: Pin<&mut Self>, _cx: &mut Context<'_>) -> Poll<Option<u8>> {
        let this = self.get_mut();
        if this.pend > 0 {
            this.pend -= 1;
            Poll::Pending
        } else {
            Poll::Ready(this.out)
        }
    }
}
//@ heavy=1
harness!(c11_filter_map_async_3, 16, {
    let s = Src::<3>::sym();
    let r = s.reference();
    // item bits: bit0-1 = pendings of its future (0..=2 capped), bit2 = filtered out
    let mut want = Seq::new();
    let mut i = 0;
    while i < r.len {
        let x = r.get(i);
        if x & 4 == 0 {
            want.push(x >> 3);
        }
        i += 1;
    }
    let p = s.filter_map_async(|x: u8| Fut { pend: (x & 3).min(2), out: if x & 4 == 0 { Some(x >> 3) } else { None } });
    let out = drive_cx(pin!(p).as_mut(), &want, 3 + 3 * 2 + 3 + 2, true);
    cov!(out.pendings >= 2 && want.len >= 2, "two pendings (source or future) and two results");
});

/// inner scripted stream derived from an item: yields `n` items x, x+1 with `pend` pendings before each
struct Inner {
    x: u8,
    left: u8,
    pend_each: u8,
    pend_now: u8,
}
impl Stream for Inner {
    type Item = u8;
    fn poll_next(self: Pin<&mut Self>, _cx: &mut Context<'_>) -> Poll<Option<u8>> {
        let this = self.get_mut();
        if this.left == 0 {
            return Poll::Ready(None);
        }
        if this.pend_now > 0 {
            this.pend_now -= 1;
            return Poll::Pending;
        }
        this.left -= 1;
        this.pend_now = this.pend_each;
        let v = this.x;
        this.x = this.x.wrapping_add(1);
        Poll::Ready(Some(v))
    }
}
fn inner_of(x: u8) -> Inner {
    // bit0-1: number of items (0..=2), bit2: one pending before each item
    let n = (x & 3).min(2);
    let pe = (x >> 2) & 1;
    Inner { x, left: n, pend_each: pe, pend_now: pe }
}
fn flat_ref(r: &Seq) -> Seq {
    let mut want = Seq::new();
    let mut i = 0;
    while i < r.len {
        let x = r.get(i);
        let n = (x & 3).min(2);
        let mut j = 0;
        while j < n {
            want.push(x.wrapping_add(j));
            j += 1;
        }
        i += 1;
    }
    want
}
//@ heavy=1
harness!(c11_flat_map_stream_2, 14, {
    let s = Src::<2>::sym();
    let want = flat_ref(&s.reference());
    let p = s.flat_map_stream(inner_of);
    let out = drive_cx(pin!(p).as_mut(), &want, 2 + 2 * 4 + 2, true);
    cov!(out.pendings >= 2 && want.len >= 3, "pendings inside inner streams, three outputs");
});
//@ heavy=1
harness!(c11_flatten_stream_2, 14, {
    let s = Src::<2>::sym();
    let want = flat_ref(&s.reference());
    let p = s.map(inner_of).flatten_stream();
    let out = drive_cx(pin!(p).as_mut(), &want, 2 + 2 * 4 + 2, true);
    cov!(out.pendings >= 1 && want.len >= 2, "a pending and two outputs");
});

fn poll_n<F: Future>(mut f: Pin<&mut F>, n: usize) -> Option<F::Output> {
    let mut cx = Context::from_waker(Waker::noop());
    let mut k = 0;
    while k < n {
        if let Poll::Ready(v) = f.as_mut().poll(&mut cx) {
            return Some(v);
        }
        k += 1;
    }
    None
}
// send_push: pull -> push bridge (C11 and C12 meet): everything the source delivers reaches the push,
// in order, the push protocol is honoured (asserted by Snk) and the push is finalized
//@ prop=C11,C12 heavy=1
harness!(c11_send_push_3, 12, {
    let s = Src::<3>::sym();
    let want = s.reference();
    let mut d = Snk::<u8, 2>::sym();
    {
        let fut = s.send_push(&mut d);
        assert!(poll_n(pin!(fut).as_mut(), 3 + 2 + 2 + 2).is_some(), "C11 send_push did not complete");
    }
    d.check(&want);
    cov!(d.ready_pendings_seen >= 1 && want.len >= 2, "downstream pending and two items");
});
//@ prop=C11,C14 heavy=1
harness!(c11_send_sink_3, 12, {
    let s = Src::<3>::sym();
    let want = s.reference();
    let mut d = SSnk::<u8, 2>::sym();
    {
        let fut = s.send_sink(&mut d);
        let r = poll_n(pin!(fut).as_mut(), 3 + 2 + 2 + 2);
        assert!(matches!(r, Some(Ok(()))), "C11 send_sink did not complete");
    }
    d.check(&want);
    assert!(d.closed, "C11 send_sink completed without closing the sink");
    cov!(d.ready_pendings_seen >= 1 && want.len >= 2, "sink pending and two items");
});
