//! C12, pushes that need a task context (filter_map_async, flat_map_stream, flatten_stream) and
//! state_push. Inner futures/streams are scripted from the items' bits.
use core::future::Future;
use core::pin::{Pin, pin};
use core::task::{Context, Poll, Waker};

use dfir_pipes::Stream;
use dfir_pipes::push::{self, Push};

use crate::script::Seq;
use crate::snk::*;
use crate::sym::any;
use crate::{cov, harness};

/// canonical caller with a task context
fn feed_cx<P, I>(mut p: Pin<&mut P>, items: &[I], retries: usize)
where
    P: for<'c> Push<I, (), Ctx<'c> = Context<'c>>,
    I: Copy,
{
    let mut cx = Context::from_waker(Waker::noop());
    let mut i = 0;
    while i < items.len() {
        let mut k = 0;
        let mut ok = false;
        while k < retries {
            if p.as_mut().poll_ready(&mut cx).is_done() {
                ok = true;
                break;
            }
            k += 1;
        }
        assert!(ok, "C12 poll_ready never became Done although every pending was consumed");
        p.as_mut().start_send(items[i], ());
        i += 1;
    }
    let mut k = 0;
    let mut ok = false;
    while k < retries {
        if p.as_mut().poll_finalize(&mut cx).is_done() {
            ok = true;
            break;
        }
        k += 1;
    }
    assert!(ok, "C12 poll_finalize never became Done although every pending was consumed");
}

struct Fut {
    pend: u8,
    out: Option<u8>,
}
impl Future for Fut {
    type Output = Option<u8>;
    fn poll(self: Pin<&mut Self>, _cx: &mut Context<'_>) -> Poll<Option<u8>> {
        let this = self.get_mut();
        if this.pend > 0 {
            this.pend -= 1;
            Poll::Pending
        } else {
            Poll::Ready(this.out)
        }
    }
}
harness!(c12_filter_map_async, 12, {
    let xs: [u8; 2] = [any(), any()];
    let mut d = Snk::<u8, 3>::sym();
    // bit0: one pending of the future; bit1: filtered out
    {
        let p = push::filter_map_async(|x: u8| Fut { pend: x & 1, out: if x & 2 == 0 { Some(x >> 2) } else { None } }, &mut d);
        feed_cx(pin!(p).as_mut(), &xs, 2 * 3 + 2 + 2);
    }
    let mut w = Seq::new();
    for x in xs {
        if x & 2 == 0 {
            w.push(x >> 2);
        }
    }
    d.check(&w);
    cov!(w.len == 2 && d.ready_pendings_seen >= 2, "two results; the downstream pends twice in a row");
});

struct Inner {
    x: u8,
    left: u8,
    pend_each: u8,
    pend_now: u8,
}
impl Stream for Inner {
    type Item = u8;
    fn poll_next(self: Pin<&mut Self>, _cx: &mut Context<'_>) -> Poll<Option<u8>> {
        let this = self.get_mut();
        if this.left == 0 {
            return Poll::Ready(None);
        }
        if this.pend_now > 0 {
            this.pend_now -= 1;
            return Poll::Pending;
        }
        this.left -= 1;
        this.pend_now = this.pend_each;
        let v = this.x;
        this.x = this.x.wrapping_add(1);
        Poll::Ready(Some(v))
    }
}
fn inner_of(x: u8) -> Inner {
    let n = (x & 3).min(2);
    let pe = (x >> 2) & 1;
    Inner { x, left: n, pend_each: pe, pend_now: pe }
}
fn flat_ref(xs: &[u8]) -> Seq {
    let mut want = Seq::new();
    for &x in xs {
        let n = (x & 3).min(2);
        let mut j = 0;
        while j < n {
            want.push(x.wrapping_add(j));
            j += 1;
        }
    }
    want
}
//@ heavy=1
harness!(c12_flat_map_stream, 14, {
    let xs: [u8; 2] = [any(), any()];
    let mut d = Snk::<u8, 2>::sym();
    {
        let p = push::flat_map_stream(inner_of, &mut d);
        feed_cx(pin!(p).as_mut(), &xs, 2 * 2 + 4 + 2);
    }
    d.check(&flat_ref(&xs));
    cov!(d.got.len >= 3 && d.ready_pendings_seen >= 1, "three outputs with a downstream pending");
});
//@ heavy=1 tier=thorough
harness!(c12_flatten_stream, 14, {
    let xs: [u8; 2] = [any(), any()];
    let mut d = Snk::<u8, 2>::sym();
    {
        let p = push::flatten_stream::<Inner, (), _>(&mut d);
        let ys = [inner_of(xs[0]), inner_of(xs[1])];
        // items are streams (not Copy): feed by hand
        let mut p = pin!(p);
        let mut cx = Context::from_waker(Waker::noop());
        for y in ys {
            let mut k = 0;
            let mut ok = false;
            while k < 10 {
                if p.as_mut().poll_ready(&mut cx).is_done() {
                    ok = true;
                    break;
                }
                k += 1;
            }
            assert!(ok, "C12 flatten_stream never became ready");
            p.as_mut().start_send(y, ());
        }
        let mut k = 0;
        let mut ok = false;
        while k < 10 {
            if p.as_mut().poll_finalize(&mut cx).is_done() {
                ok = true;
                break;
            }
            k += 1;
        }
        assert!(ok, "C12 flatten_stream finalize never completed");
    }
    d.check(&flat_ref(&xs));
    cov!(d.got.len >= 2, "two outputs");
});

// state_push: items that grow the lattice state are forwarded; the final state is delivered once on finalize
harness!(c12_state_push, 12, {
    use lattices::Max;
    let xs: [u8; 2] = [any(), any()];
    let mut items = Snk::<u8, 2>::sym();
    let mut state_out = Snk::<Max<u8>, 2>::sym();
    let mut state = Max::new(0u8);
    {
        let p = push::state_push(&mut items, &mut state_out, |x: u8| Max::new(x), &mut state);
        feed(pin!(p).as_mut(), &xs, 2 * 2 * 2 + 2);
    }
    let mut w = Seq::new();
    let mut m = 0u8;
    for x in xs {
        if x > m {
            w.push(x);
            m = x;
        }
    }
    items.check(&w);
    let mut ws = Seq::<Max<u8>>::new();
    ws.push(Max::new(m));
    state_out.check(&ws);
    cov!(w.len == 2 && state_out.fin_pendings_seen >= 1, "both items grow the state; the state downstream pends during finalize");
});
