//! C11: pull combinators yield exactly what the corresponding iterator adapter would, in order, for
//! every placement of `Pending` in their inputs (symbolic scripts), fused pulls stay ended, and every
//! observed `size_hint` brackets the number of items still to come.
use core::cell::Cell;
use core::future::Future;
use core::pin::{Pin, pin};
use core::task::{Context, Poll, Waker};

use dfir_pipes::pull::{self, FusedPull, Pull, PullStep};
use dfir_pipes::{Either, EitherOrBoth, No, Yes};

use crate::script::*;
use crate::sym::{any, assume};
use crate::{cov, harness};

/// drive to completion and require that the combinator ended having produced everything
fn run<P, T>(p: P, want: &Seq<T>, steps: usize, fused: bool) -> Outcome
where
    P: for<'c> Pull<Ctx<'c> = (), Item = T>,
    T: Copy + Default + PartialEq,
{
    let mut p = pin!(p);
    let out = drive(p.as_mut(), want, steps, fused);
    assert!(out.ended && out.produced == want.len, "C11 did not deliver all reference items and end within the step bound");
    out
}
fn is_fused<P: FusedPull>(_: &P) {}

macro_rules! unary {
    ($name:ident, $unwind:literal, $n:literal, $tier:ident, |$s:ident| $build:expr, |$r:ident| $refbody:expr, $fused:expr) => {
        harness!($name, $unwind, {
            let $s = Src::<$n>::sym();
            let src_ref = $s.reference();
            let npend = $s.pendings();
            let want = { let $r = &src_ref; $refbody };
            let p = $build;
            let out = run(p, &want, 2 * $n + 2, $fused);
            cov!(npend > 0 && out.produced >= 1, "a Pending was placed before the end");
            cov!(src_ref.len == $n, "all script entries ready");
        });
    };
}

fn seq_map<T: Copy + Default + PartialEq, U: Copy + Default + PartialEq>(r: &Seq<T>, mut f: impl FnMut(usize, T) -> Option<U>) -> Seq<U> {
    let mut o = Seq::new();
    let mut i = 0;
    while i < r.len {
        if let Some(u) = f(i, r.get(i)) {
            o.push(u);
        }
        i += 1;
    }
    o
}

unary!(c11_map_4, 12, 4, quick, |s| s.map(|x: u8| x.wrapping_mul(3).wrapping_add(1)), |r| seq_map(r, |_, x| Some(x.wrapping_mul(3).wrapping_add(1))), true);
unary!(c11_filter_4, 12, 4, quick, |s| s.filter(|x: &u8| x & 1 == 0), |r| seq_map(r, |_, x| if x & 1 == 0 { Some(x) } else { None }), true);
unary!(c11_filter_map_4, 12, 4, quick, |s| s.filter_map(|x: u8| if x & 1 == 0 { Some(x >> 1) } else { None }), |r| seq_map(r, |_, x| if x & 1 == 0 { Some(x >> 1) } else { None }), true);
unary!(c11_enumerate_4, 12, 4, quick, |s| s.enumerate(), |r| seq_map(r, |i, x| Some((i, x))), true);
unary!(c11_take_while_4, 12, 4, quick, |s| s.take_while(|x: &u8| *x < 128), |r| { let mut stop = false; seq_map(r, |_, x| { if x >= 128 { stop = true; } if stop { None } else { Some(x) } }) }, false);
unary!(c11_skip_while_4, 12, 4, quick, |s| s.skip_while(|x: &u8| *x < 128), |r| { let mut go = false; seq_map(r, |_, x| { if x >= 128 { go = true; } if go { Some(x) } else { None } }) }, true);
unary!(c11_flatten_option_4, 12, 4, quick, |s| s.map(|x: u8| if x & 1 == 0 { Some(x) } else { None }).flatten(), |r| seq_map(r, |_, x| if x & 1 == 0 { Some(x) } else { None }), true);
unary!(c11_fuse_of_fused_4, 12, 4, quick, |s| s.fuse(), |r| *r, true);

harness!(c11_map_6, 16, { let s = Src::<6>::sym(); let want = seq_map(&s.reference(), |_, x| Some(x ^ 0x55)); let np = s.pendings(); let out = run(s.map(|x: u8| x ^ 0x55), &want, 14, true); cov!(np >= 2 && out.produced >= 2, "two pendings"); });

harness!(c11_take_4, 12, {
    let s = Src::<4>::sym();
    let n: usize = any();
    assume(n <= 5);
    let r = s.reference();
    let want = seq_map(&r, |i, x| if i < n { Some(x) } else { None });
    let p = s.take(n);
    is_fused(&p);
    let out = run(p, &want, 10, true);
    cov!(n < r.len && n > 0, "take cuts the input");
    cov!(n > r.len, "take longer than input");
});
harness!(c11_skip_4, 12, {
    let s = Src::<4>::sym();
    let n: usize = any();
    assume(n <= 5);
    let r = s.reference();
    let want = seq_map(&r, |i, x| if i >= n { Some(x) } else { None });
    let out = run(s.skip(n), &want, 10, true);
    cov!(n < r.len && n > 0 && out.pendings > 0, "skip cuts the input, with a pending");
});
harness!(c11_inspect_4, 12, {
    let s = Src::<4>::sym();
    let r = s.reference();
    let calls = Cell::new(0usize);
    let ok = Cell::new(true);
    let p = s.inspect(|x: &u8| {
        // the closure must see exactly the reference items, in order
        if calls.get() >= r.len || r.get(calls.get()) != *x {
            ok.set(false);
        }
        calls.set(calls.get() + 1);
    });
    let out = run(p, &r, 10, true);
    assert!(ok.get() && calls.get() == r.len, "C11 inspect closure was not called once per item in order");
    cov!(out.pendings > 0 && r.len >= 2, "pending and two items");
});
harness!(c11_flat_map_3, 14, {
    let s = Src::<3>::sym();
    let r = s.reference();
    // each item expands to 0, 1 or 2 outputs depending on its value
    let mut want = Seq::new();
    let mut i = 0;
    while i < r.len {
        let x = r.get(i);
        let k = (x % 3) as usize;
        let mut j = 0;
        while j < k {
            want.push(x.wrapping_add(j as u8));
            j += 1;
        }
        i += 1;
    }
    let p = s.flat_map(|x: u8| (0..(x % 3)).map(move |j| x.wrapping_add(j)));
    let out = run(p, &want, 12, true);
    cov!(want.len >= 4 && out.pendings > 0, "expansion with a pending");
    cov!(want.len == 0 && r.len == 3, "everything expands to nothing");
});

// ------------------------------------------------------------------------------------ binary
harness!(c11_chain_3_3, 14, {
    let (a, b) = (Src::<3>::sym(), Src::<3>::sym());
    let (ra, rb) = (a.reference(), b.reference());
    let mut want = ra;
    let mut i = 0;
    while i < rb.len {
        want.push(rb.get(i));
        i += 1;
    }
    let (pa, pb) = (a.pendings(), b.pendings());
    let p = a.chain(b);
    is_fused(&p);
    let out = run(p, &want, 10, true);
    cov!(pa > 0 && pb > 0 && ra.len > 0 && rb.len > 0, "pendings in both inputs");
});
harness!(c11_zip_4_4, 14, {
    let (a, b) = (Src::<4>::sym(), Src::<4>::sym());
    let (ra, rb) = (a.reference(), b.reference());
    let mut want = Seq::<(u8, u8)>::new();
    let mut i = 0;
    while i < ra.len && i < rb.len {
        want.push((ra.get(i), rb.get(i)));
        i += 1;
    }
    let (pa, pb) = (a.pendings(), b.pendings());
    let out = run(a.zip(b), &want, 12, false);
    cov!(pa > 0 && pb > 0 && want.len >= 2, "pendings on both sides, two pairs");
    cov!(ra.len != rb.len, "unequal lengths");
});
harness!(c11_zip_longest_3_3, 14, {
    let (a, b) = (Src::<3>::sym(), Src::<3>::sym());
    let (ra, rb) = (a.reference(), b.reference());
    // encode EitherOrBoth as (tag, l, r)
    let mut want = Seq::<(u8, u8, u8)>::new();
    let mut i = 0;
    while i < ra.len || i < rb.len {
        if i < ra.len && i < rb.len {
            want.push((0, ra.get(i), rb.get(i)));
        } else if i < ra.len {
            want.push((1, ra.get(i), 0));
        } else {
            want.push((2, 0, rb.get(i)));
        }
        i += 1;
    }
    let (pa, pb) = (a.pendings(), b.pendings());
    let p = a.zip_longest(b).map(|e| match e {
        EitherOrBoth::Both(l, r) => (0u8, l, r),
        EitherOrBoth::Left(l) => (1u8, l, 0),
        EitherOrBoth::Right(r) => (2u8, 0, r),
    });
    let out = run(p, &want, 10, true);
    cov!(pa > 0 && pb > 0 && ra.len != rb.len, "pendings on both sides, unequal lengths");
});
harness!(c11_cross_singleton_3_2, 12, {
    let (items, single) = (Src::<3>::sym(), Src::<2>::sym());
    let (ri, rs) = (items.reference(), single.reference());
    let mut want = Seq::<(u8, u8)>::new();
    if rs.len > 0 {
        let mut i = 0;
        while i < ri.len {
            want.push((ri.get(i), rs.get(0)));
            i += 1;
        }
    }
    let ps = single.pendings();
    let p = items.cross_singleton(single);
    is_fused(&p);
    let out = run(p, &want, 9, true);
    cov!(ps > 0 && want.len >= 2, "singleton arrives after a pending");
    cov!(rs.len == 0 && ri.len > 0, "no singleton: items are dropped");
});

// Fuse over an UNFUSED upstream: stays ended and never polls the upstream again
harness!(c11_fuse_unfused_4, 12, {
    let mut s = SrcU::<4>::sym();
    let want = s.reference();
    {
        let p = (&mut s).fuse();
        is_fused(&p);
        let _ = run(p, &want, 8, true);
    }
    assert!(s.polls_after_first_end == 0, "C11 Fuse polled its upstream again after it had ended");
    cov!(s.pos < 4, "script had entries left after the end");
});

// ------------------------------------------------------------------------------------ sources
harness!(c11_sources, 8, {
    let x: u8 = any();
    let mut want = Seq::new();
    want.push(x);
    let _ = run(pull::once(x), &want, 3, true);
    let _ = run(pull::empty::<u8>(), &Seq::new(), 2, true);
    let arr = [x, x.wrapping_add(1), 7];
    let mut w3 = Seq::new();
    w3.extend(arr);
    let _ = run(pull::iter(arr), &w3, 5, false);
    let n: usize = any();
    assume(n <= 3);
    let mut wr = Seq::new();
    let mut i = 0;
    while i < n {
        wr.push(x);
        i += 1;
    }
    let _ = run(pull::repeat(x).take(n), &wr, 5, true);
    cov!(n == 3, "three repeats");
});
harness!(c11_from_fn_poll_fn, 8, {
    let s = Src::<3>::sym();
    let want = s.reference();
    let st = Cell::new(s);
    // poll_fn: forwards a scripted source step by step (may pend)
    let p = pull::poll_fn(|_cx: &mut Context<'_>| {
        let mut s = st.get();
        let r = Pin::new(&mut s).pull(&mut ());
        st.set(s);
        r
    });
    // poll_fn pulls need a task context: adapt through stream_compat-free manual loop
    let mut p = pin!(p);
    let mut cx = Context::from_waker(Waker::noop());
    let mut produced = 0;
    let mut k = 0;
    let mut ended = false;
    while k < 5 {
        match p.as_mut().pull(&mut cx) {
            PullStep::Ready(x, ()) => {
                assert!(produced < want.len && x == want.get(produced), "C11 poll_fn item mismatch");
                produced += 1;
            }
            PullStep::Pending(_) => {}
            PullStep::Ended(_) => {
                assert!(produced == want.len, "C11 poll_fn ended early");
                ended = true;
            }
        }
        k += 1;
    }
    assert!(ended, "C11 poll_fn did not end");
    // from_fn: cannot pend
    let mut left: u8 = any();
    assume(left <= 3);
    let n = left;
    let mut wf = Seq::new();
    let mut i = 0;
    while i < n {
        wf.push(n - i);
        i += 1;
    }
    let f = pull::from_fn(move || if left == 0 { PullStep::<u8, (), No, Yes>::Ended(Yes) } else { left -= 1; PullStep::Ready(left + 1, ()) });
    let _ = run(f, &wf, 5, false);
    cov!(n == 3 && produced >= 2, "both non-trivial");
});

// ------------------------------------------------------------------------------------ futures
fn poll_n<F: Future>(mut f: Pin<&mut F>, n: usize) -> (Option<F::Output>, usize) {
    let mut cx = Context::from_waker(Waker::noop());
    let mut k = 0;
    while k < n {
        if let Poll::Ready(v) = f.as_mut().poll(&mut cx) {
            return (Some(v), k);
        }
        k += 1;
    }
    (None, n)
}
harness!(c11_collect_4, 12, {
    let s = Src::<4>::sym();
    let want = s.reference();
    let np = s.pendings();
    let fut = pin!(s.collect::<Seq>());
    let (got, polls) = poll_n(fut, 6);
    let got = got.expect("C11 collect did not complete");
    assert!(got.len == want.len, "C11 collect: wrong number of items");
    let mut i = 0;
    while i < want.len {
        assert!(got.get(i) == want.get(i), "C11 collect: item differs from the reference (value or order)");
        i += 1;
    }
    assert!(polls == np, "C11 collect: completes exactly after one poll per Pending");
    cov!(np >= 2 && want.len >= 2, "two pendings, two items");
});
harness!(c11_for_each_4, 12, {
    let s = Src::<4>::sym();
    let want = s.reference();
    let got = Cell::new(Seq::<u8>::new());
    let fut = pin!(s.for_each(|x: u8| { let mut g = got.get(); g.push(x); got.set(g); }));
    let (done, _) = poll_n(fut, 6);
    assert!(done.is_some(), "C11 for_each did not complete");
    let g = got.get();
    assert!(g.len == want.len, "C11 for_each: wrong number of calls");
    let mut i = 0;
    while i < want.len {
        assert!(g.get(i) == want.get(i), "C11 for_each: item differs from the reference (value or order)");
        i += 1;
    }
    cov!(want.len == 4, "all four");
});
harness!(c11_next_3, 8, {
    let mut s = Src::<3>::sym();
    let want = s.reference();
    // repeated `next()` futures over the same pull yield the reference items one by one
    let mut got = 0;
    let mut k = 0;
    let mut ended = false;
    while k < 5 {
        let fut = pin!((&mut s).next());
        let (r, _) = poll_n(fut, 1);
        match r {
            Some(Some((x, ()))) => {
                assert!(got < want.len && x == want.get(got), "C11 next: item differs from the reference");
                got += 1;
            }
            Some(None) => {
                assert!(got == want.len, "C11 next: reported the end early");
                ended = true;
            }
            None => {}
        }
        k += 1;
    }
    assert!(ended, "C11 next never reported the end");
    cov!(got == 3, "three items");
});
