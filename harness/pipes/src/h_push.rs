//! C12: push combinators deliver to each downstream exactly the reference items, in order, for every
//! pattern of downstream `Pending` answers; they send only after that downstream's own `poll_ready`
//! was Done, never after finalizing it, and finalize every downstream after its items.
use core::cell::Cell;
use core::pin::pin;

use dfir_pipes::push::{self, Push};

use crate::script::Seq;
use crate::snk::*;
use crate::sym::{any, assume};
use crate::{cov, harness};

/// retry bound of the caller loops: every `Pending` an upstream poll returns consumes one scripted
/// pending of some downstream (n ready + n finalize pendings each), so `pendings + 1` polls suffice
const fn r(n: usize, downstreams: usize) -> usize {
    2 * n * downstreams + 2
}

fn items3() -> [u8; 3] {
    [any(), any(), any()]
}
fn seq_of<T: Copy + Default + PartialEq>(xs: &[T]) -> Seq<T> {
    let mut s = Seq::new();
    let mut i = 0;
    while i < xs.len() {
        s.push(xs[i]);
        i += 1;
    }
    s
}

harness!(c12_map, 10, {
    let xs = items3();
    let mut d = Snk::<u8, 3>::sym();
    feed(pin!(push::map(|x: u8| x.wrapping_mul(5), &mut d)).as_mut(), &xs, r(3, 1));
    d.check(&seq_of(&[xs[0].wrapping_mul(5), xs[1].wrapping_mul(5), xs[2].wrapping_mul(5)]));
    cov!(d.ready_pendings_seen >= 2 && d.fin_pendings_seen >= 1, "pendings on ready and finalize");
});
harness!(c12_filter, 10, {
    let xs = items3();
    let mut d = Snk::<u8, 3>::sym();
    feed(pin!(push::filter(|x: &u8| x & 1 == 0, &mut d)).as_mut(), &xs, r(3, 1));
    let mut w = Seq::new();
    for x in xs {
        if x & 1 == 0 {
            w.push(x);
        }
    }
    d.check(&w);
    cov!(w.len == 1 && d.ready_pendings_seen >= 1, "one passes, with a pending");
});
harness!(c12_filter_map, 10, {
    let xs = items3();
    let mut d = Snk::<u8, 3>::sym();
    feed(pin!(push::filter_map(|x: u8| if x > 100 { Some(x - 100) } else { None }, &mut d)).as_mut(), &xs, r(3, 1));
    let mut w = Seq::new();
    for x in xs {
        if x > 100 {
            w.push(x - 100);
        }
    }
    d.check(&w);
    cov!(w.len == 2, "two pass");
});
harness!(c12_inspect, 10, {
    let xs = items3();
    let mut d = Snk::<u8, 3>::sym();
    let seen = Cell::new(Seq::<u8>::new());
    feed(pin!(push::inspect(|x: &u8| { let mut s = seen.get(); s.push(*x); seen.set(s); }, &mut d)).as_mut(), &xs, r(3, 1));
    d.check(&seq_of(&xs));
    let s = seen.get();
    assert!(s.len == 3 && s.get(0) == xs[0] && s.get(1) == xs[1] && s.get(2) == xs[2], "C12 inspect closure not called once per item in order");
    cov!(d.ready_pendings_seen >= 1, "a pending");
});
harness!(c12_for_each, 8, {
    let xs = items3();
    let seen = Cell::new(Seq::<u8>::new());
    feed(pin!(push::for_each(|x: u8| { let mut s = seen.get(); s.push(x); seen.set(s); })).as_mut(), &xs, 2);
    let s = seen.get();
    assert!(s.len == 3 && s.get(0) == xs[0] && s.get(1) == xs[1] && s.get(2) == xs[2], "C12 for_each closure not called once per item in order");
    cov!(true, "reached end");
});
// flat_map: the buffered item must survive downstream Pendings (two inputs, 0..=2 outputs each)
fn flat_map_check<const N: usize>() {
    let xs: [u8; 2] = [any(), any()];
    let mut d = Snk::<u8, N>::sym();
    feed(pin!(push::flat_map(|x: u8| (0..(x % 3)).map(move |j| x.wrapping_add(j)), &mut d)).as_mut(), &xs, r(N, 1));
    let mut w = Seq::new();
    for x in xs {
        let mut j = 0;
        while j < x % 3 {
            w.push(x.wrapping_add(j));
            j += 1;
        }
    }
    d.check(&w);
    cov!(w.len == 4 && d.ready_pendings_seen >= 2, "four outputs across two pendings");
    cov!(w.len == 0, "nothing produced");
}
//@ heavy=1
harness!(c12_flat_map, 8, { flat_map_check::<2>(); });
//@ heavy=1 tier=thorough
harness!(c12_flat_map_3, 10, { flat_map_check::<3>(); });
fn flatten_check<const N: usize>() {
    let xs: [[u8; 2]; 2] = [[any(), any()], [any(), any()]];
    let mut d = Snk::<u8, N>::sym();
    feed(pin!(push::flatten::<[u8; 2], (), _>(&mut d)).as_mut(), &xs, r(N, 1));
    d.check(&seq_of(&[xs[0][0], xs[0][1], xs[1][0], xs[1][1]]));
    cov!(d.ready_pendings_seen >= 2, "two pendings");
}
//@ heavy=1
harness!(c12_flatten, 8, { flatten_check::<2>(); });
//@ heavy=1 tier=thorough
harness!(c12_flatten_3, 10, { flatten_check::<3>(); });
harness!(c12_fanout, 12, {
    let xs: [u8; 2] = [any(), any()];
    let (mut a, mut b) = (Snk::<u8, 2>::sym(), Snk::<u8, 2>::sym());
    feed(pin!(push::fanout(&mut a, &mut b)).as_mut(), &xs, r(2, 2));
    a.check(&seq_of(&xs));
    b.check(&seq_of(&xs));
    cov!(a.ready_pendings_seen >= 1 && b.ready_pendings_seen >= 1 && a.fin_pendings_seen >= 1, "pendings on both downstreams");
    cov!(a.polls_after_finalize > 0 || b.polls_after_finalize > 0, "O1: a finalized downstream is re-polled while its sibling is pending");
});
harness!(c12_unzip, 12, {
    let xs: [(u8, u16); 2] = [(any(), any()), (any(), any())];
    let (mut a, mut b) = (Snk::<u8, 2>::sym(), Snk::<u16, 2>::sym());
    feed(pin!(push::unzip(&mut a, &mut b)).as_mut(), &xs, r(2, 2));
    a.check(&seq_of(&[xs[0].0, xs[1].0]));
    b.check(&seq_of(&[xs[0].1, xs[1].1]));
    cov!(a.ready_pendings_seen >= 1 && b.fin_pendings_seen >= 1, "pendings on both downstreams");
});
harness!(c12_demux_var, 16, {
    let i0: usize = any();
    let i1: usize = any();
    let i2: usize = any();
    assume(i0 < 3 && i1 < 3 && i2 < 3);
    let xs: [(usize, u8); 3] = [(i0, any()), (i1, any()), (i2, any())];
    let (mut a, mut b, mut c) = (Snk::<u8, 2>::sym(), Snk::<u8, 2>::sym(), Snk::<u8, 2>::sym());
    feed(pin!(push::demux_var((&mut a, (&mut b, (&mut c, ()))))).as_mut(), &xs, r(2, 3));
    let mut w = [Seq::<u8>::new(), Seq::new(), Seq::new()];
    for (i, x) in xs {
        w[i].push(x);
    }
    a.check(&w[0]);
    b.check(&w[1]);
    c.check(&w[2]);
    cov!(w[1].len == 2 && w[2].len == 1 && b.ready_pendings_seen >= 1, "routing to two outputs with a pending");
});
harness!(c12_fold, 10, {
    let xs = items3();
    let mut d = Snk::<u32, 3>::sym();
    feed(pin!(push::fold::<u32, _, u32, u8, _>(7u32, |acc: &mut u32, x: u8| *acc += x as u32, &mut d)).as_mut(), &xs, r(3, 1));
    d.check(&seq_of(&[7 + xs[0] as u32 + xs[1] as u32 + xs[2] as u32]));
    cov!(d.ready_pendings_seen >= 2 && d.fin_pendings_seen >= 1, "result held across pendings");
});
harness!(c12_reduce, 10, {
    let n: usize = any();
    assume(n <= 3);
    let xs = items3();
    let mut d = Snk::<u8, 3>::sym();
    feed(pin!(push::reduce(None, |acc: &mut u8, x: u8| *acc = (*acc).max(x), &mut d)).as_mut(), &xs[..n], r(3, 1));
    let mut w = Seq::new();
    if n > 0 {
        let mut m = xs[0];
        let mut i = 1;
        while i < n {
            m = m.max(xs[i]);
            i += 1;
        }
        w.push(m);
    }
    d.check(&w);
    cov!(n == 0, "empty input: nothing delivered");
    cov!(n == 3 && d.ready_pendings_seen >= 1, "three inputs");
});
// fanout whose first branch accumulates: a re-poll after Done must not duplicate the result (O1 guard)
harness!(c12_fanout_of_fold, 12, {
    let xs: [u8; 2] = [any(), any()];
    let (mut a, mut b) = (Snk::<u32, 2>::sym(), Snk::<u8, 2>::sym());
    {
        let f = push::fold::<u32, _, u32, u8, _>(0u32, |acc: &mut u32, x: u8| *acc += x as u32, &mut a);
        feed(pin!(push::fanout(f, &mut b)).as_mut(), &xs, r(2, 2));
    }
    a.check(&seq_of(&[xs[0] as u32 + xs[1] as u32]));
    b.check(&seq_of(&xs));
    cov!(b.fin_pendings_seen >= 1 && a.fin_pendings_seen >= 1, "both branches pend during finalize");
});
