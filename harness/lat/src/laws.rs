//! Generic law bodies. Each is instantiated once per lattice type by the generated `inst_*.rs`
//! files (Kani verifies one monomorphisation per harness; the evidence lists each).
//!
//! Everything named `x, y, z` is a fully symbolic value of the type (see `types.rs`).

use core::cmp::Ordering::*;

use lattices::{IsBot, IsTop, LatticeFrom, Merge};

use crate::cov;
use crate::model::Model;
use crate::types::Lat;

/// C01: idempotent, commutative, associative — judged by the lattice's own `==` *and* by the
/// independent model (so a bug shared by `merge` and `eq` cannot cancel).
pub fn c01<T>(can_change: bool, has_incomparable: bool)
where
    T: Lat + Merge<T> + PartialEq,
{
    let x = T::sym();
    let y = T::sym();
    let z = T::sym();

    // idempotence
    let xx = Merge::merge_owned(x.clone(), x.clone());
    assert!(xx == x, "C01 idempotence (==): merge(x,x) != x");
    assert!(xx.model().eqv(&x.model()), "C01 idempotence (model): merge(x,x) != x");

    // commutativity
    let xy = Merge::merge_owned(x.clone(), y.clone());
    let yx = Merge::merge_owned(y.clone(), x.clone());
    assert!(xy == yx, "C01 commutativity (==): merge(x,y) != merge(y,x)");
    assert!(xy.model().eqv(&yx.model()), "C01 commutativity (model): merge(x,y) != merge(y,x)");

    // associativity
    let yz = Merge::merge_owned(y.clone(), z.clone());
    let x_yz = Merge::merge_owned(x.clone(), yz);
    let xy_z = Merge::merge_owned(xy.clone(), z.clone());
    assert!(x_yz == xy_z, "C01 associativity (==): x+(y+z) != (x+y)+z");
    assert!(x_yz.model().eqv(&xy_z.model()), "C01 associativity (model): x+(y+z) != (x+y)+z");

    cov!(!has_incomparable || (!xy.model().eqv(&x.model()) && !xy.model().eqv(&y.model())), "join differs from both operands");
    cov!(!can_change || (!xy.model().eqv(&x.model())), "join differs from receiver");
    cov!(true, "reached end");
}

/// C02: the flag is `true` exactly when the receiver strictly grew.
pub fn c02<T>(can_change: bool, _has_incomparable: bool)
where
    T: Lat + Merge<T> + PartialEq + PartialOrd,
{
    let x = T::sym();
    let y = T::sym();
    let before = x.clone();
    let mut a = x;
    let ch = a.merge(y.clone());

    let grew_model = !a.model().eqv(&before.model());
    assert!(ch == grew_model, "C02 flag != (model value changed)");
    assert!(ch == (a != before), "C02 flag != (value changed by ==)");
    assert!(before.model().le(&a.model()), "C02 merge did not move upwards (model)");
    if ch {
        assert!(before.partial_cmp(&a) == Some(Less), "C02 flag true but receiver not strictly greater (partial_cmp)");
        assert!(!y.model().le(&before.model()), "C02 flag true but delta was already <= receiver (model)");
    } else {
        assert!(
            matches!(y.partial_cmp(&before), Some(Less | Equal)),
            "C02 flag false but delta not <= receiver (partial_cmp)"
        );
        assert!(y.model().le(&before.model()), "C02 flag false but delta not <= receiver (model)");
    }
    cov!(!can_change || (ch), "flag true");
    cov!(!ch, "flag false");
}

/// C03: comparisons, bottom, top agree with merge and form a partial order.
pub fn c03<T>(can_differ: bool, has_incomparable: bool)
where
    T: Lat + Merge<T> + PartialEq + PartialOrd + IsBot + IsTop,
{
    let x = T::sym();
    let y = T::sym();
    let z = T::sym();
    let (mx, my) = (x.model(), y.model());

    // agreement with the independent model order
    let mc = mx.cmp(&my);
    assert!(x.partial_cmp(&y) == mc, "C03 partial_cmp != model order");
    assert!((x == y) == (mc == Some(Equal)), "C03 eq != model equivalence");
    assert!(!x.is_bot() || mx.is_bot(), "C03 is_bot true for a value that is not the least element");
    assert!(x.is_bot() || !mx.is_bot(), "C03 is_bot false for the least element");
    assert!(!x.is_top() || mx.is_top(), "C03 is_top true for a value that is not the greatest element");
    assert!(x.is_top() || !mx.is_top(), "C03 is_top false for the greatest element");

    // a <= b  <=>  merging a into b leaves b unchanged (re-derived here, not via naive_cmp)
    let yy = Merge::merge_owned(y.clone(), x.clone());
    assert!((x <= y) == (yy == y), "C03 (x <= y) != (merge(y,x) == y)");

    // equality is the induced equivalence; partial order axioms with the crate's own operators
    assert!(x == x, "C03 reflexive ==");
    assert!(x.partial_cmp(&x) == Some(Equal), "C03 reflexive partial_cmp");
    assert!((x == y) == (y == x), "C03 symmetric ==");
    assert!((x == y) == (x.partial_cmp(&y) == Some(Equal)), "C03 == iff Equal");
    assert!(!(x <= y && y <= x) || x == y, "C03 antisymmetry");
    assert!(!(x <= y && y <= z) || x <= z, "C03 transitivity <=");
    assert!(!(x == y && y == z) || x == z, "C03 transitivity ==");
    assert!((x < y) == (y > x), "C03 duality");
    assert!((x <= y) == (x < y || x == y), "C03 <= iff < or ==");

    // bottom / top
    assert!(!x.is_bot() || x <= y, "C03 is_bot but not least");
    assert!(!x.is_top() || y <= x, "C03 is_top but not greatest");

    cov!(!can_differ || (mc == Some(Less)), "less");
    cov!(!can_differ || (mc == Some(Greater)), "greater");
    cov!(!has_incomparable || (mc.is_none()), "incomparable");
    cov!(mc == Some(Equal), "equal");
}

/// C03: `Default` is bottom.
pub fn c03_default<T>()
where
    T: Lat + Default + IsBot,
{
    let d = T::default();
    assert!(d.is_bot(), "C03 default is not is_bot");
    assert!(d.model().is_bot(), "C03 default is not the model's bottom");
    cov!(true, "reached end");
}

/// C04: merge computes the documented join.
pub fn c04<T>(can_change: bool, _has_incomparable: bool)
where
    T: Lat + Merge<T> + LatticeFrom<T>,
{
    let x = T::sym();
    let y = T::sym();
    let want = x.model().join(&y.model());
    let mut a = x.clone();
    let ch = a.merge(y.clone());
    assert!(a.model().eqv(&want), "C04 merge result != model join");
    let b = Merge::merge_owned(x.clone(), y.clone());
    assert!(b.model().eqv(&want), "C04 merge_owned result != model join");
    let c = T::lattice_from(y.clone());
    assert!(c.model().eqv(&y.model()), "C04 lattice_from(self type) changed the value");
    cov!(!can_change || (ch), "changed");
    cov!(!ch, "unchanged");
}

/// C02+C04 for heterogeneous merges `A: Merge<B>`: same model result and exact flag.
pub fn het_merge<A, B>()
where
    A: Lat + Merge<B>,
    B: Lat<M = A::M>,
{
    let a0 = A::sym();
    let b = B::sym();
    let (ma, mb) = (a0.model(), b.model());
    let mut a = a0.clone();
    let ch = a.merge(b);
    assert!(a.model().eqv(&ma.join(&mb)), "C04 heterogeneous merge != model join");
    assert!(ch == !a.model().eqv(&ma), "C02 heterogeneous merge flag != (value changed)");
    cov!(ch, "changed");
    cov!(!ch, "unchanged");
}

/// C03 for cross-representation comparisons.
pub fn het_cmp<A, B>()
where
    A: Lat + PartialOrd<B> + PartialEq<B>,
    B: Lat<M = A::M>,
{
    let a = A::sym();
    let b = B::sym();
    let mc = a.model().cmp(&b.model());
    assert!(a.partial_cmp(&b) == mc, "C03 cross-representation partial_cmp != model order");
    assert!((a == b) == (mc == Some(Equal)), "C03 cross-representation eq != model equivalence");
    cov!(mc == Some(Equal), "equal");
    cov!(mc != Some(Equal), "not equal");
}

/// C04 for conversions.
pub fn het_from<A, B>()
where
    A: Lat + LatticeFrom<B>,
    B: Lat<M = A::M>,
{
    let b = B::sym();
    let mb = b.model();
    let a = A::lattice_from(b);
    assert!(a.model().eqv(&mb), "C04 lattice_from changed the value");
    cov!(true, "reached end");
}
