//! Generic law bodies. Each is instantiated once per lattice type / shape by the generated
//! `inst_*.rs` files (Kani verifies one monomorphisation per harness; the evidence lists each).
//!
//! `*_on` variants take the values (built by the generated harness with a concrete *shape* and
//! symbolic *contents*); the plain variants build fully symbolic values with `Lat::sym()`.
//!
//! `m` is a bit mask telling which vacuity witnesses (`cov!`) are satisfiable for the instance — a
//! witness that cannot exist for a shape (e.g. "strictly less" between two sets of equal size) is
//! switched off by the generator; every witness that is on must come back SATISFIED.

use core::cmp::Ordering::*;

use lattices::{IsBot, IsTop, LatticeFrom, Merge};

use crate::cov;
use crate::model::Model;
use crate::types::{HasModel, Lat};

pub const A: u8 = 1;
pub const B: u8 = 2;
pub const C: u8 = 4;
pub const D: u8 = 8;
#[inline(always)]
fn on(m: u8, bit: u8) -> bool {
    m & bit != 0
}

/// C01 is split in three harness bodies (i/c/a) so that heap-backed instances stay small.
/// Everything is judged by the lattice's own `==` *and* by the independent model (so a bug shared by
/// `merge` and `eq` cannot cancel).
pub fn c01i<T>(_m: u8)
where
    T: Lat + Merge<T> + PartialEq,
{
    c01i_on(T::sym())
}
/// C01 idempotence.
pub fn c01i_on<T>(x: T)
where
    T: HasModel + Merge<T> + PartialEq,
{
    let mut xx = x.clone();
    let ch = xx.merge(x.clone());
    assert!(!ch, "C01 idempotence: merge(x,x) reported a change");
    assert!(xx == x, "C01 idempotence (==): merge(x,x) != x");
    assert!(xx.model().eqv(&x.model()), "C01 idempotence (model): merge(x,x) != x");
    cov!(true, "reached end");
}
/// C01 commutativity. witnesses: A = join differs from receiver, B = join differs from both operands.
pub fn c01c<T>(m: u8)
where
    T: Lat + Merge<T> + PartialEq,
{
    c01c_on(T::sym(), T::sym(), m)
}
pub fn c01c_on<T>(x: T, y: T, m: u8)
where
    T: HasModel + Merge<T> + PartialEq,
{
    let xy = Merge::merge_owned(x.clone(), y.clone());
    let yx = Merge::merge_owned(y.clone(), x.clone());
    assert!(xy == yx, "C01 commutativity (==): merge(x,y) != merge(y,x)");
    assert!(xy.model().eqv(&yx.model()), "C01 commutativity (model): merge(x,y) != merge(y,x)");
    cov!(!on(m, B) || (!xy.model().eqv(&x.model()) && !xy.model().eqv(&y.model())), "join differs from both operands");
    cov!(!on(m, A) || !xy.model().eqv(&x.model()), "join differs from receiver");
}
/// C01 associativity. witnesses: A = y changes x, B = z changes x+y.
pub fn c01a<T>(m: u8)
where
    T: Lat + Merge<T> + PartialEq,
{
    c01a_on(T::sym(), T::sym(), T::sym(), m)
}
pub fn c01a_on<T>(x: T, y: T, z: T, m: u8)
where
    T: HasModel + Merge<T> + PartialEq,
{
    let xy = Merge::merge_owned(x.clone(), y.clone());
    let yz = Merge::merge_owned(y, z.clone());
    let x_yz = Merge::merge_owned(x.clone(), yz);
    let xy_z = Merge::merge_owned(xy.clone(), z);
    assert!(x_yz == xy_z, "C01 associativity (==): x+(y+z) != (x+y)+z");
    assert!(x_yz.model().eqv(&xy_z.model()), "C01 associativity (model): x+(y+z) != (x+y)+z");
    cov!(!on(m, A) || !xy.model().eqv(&x.model()), "y changes x");
    cov!(!on(m, B) || !xy_z.model().eqv(&xy.model()), "z changes x+y");
}

/// C02: the flag is `true` exactly when the receiver strictly grew.
/// witnesses: A = flag true, B = flag false.
pub fn c02<T>(m: u8)
where
    T: Lat + Merge<T> + PartialEq + PartialOrd,
{
    c02_on(T::sym(), T::sym(), m)
}
pub fn c02_on<T>(x: T, y: T, m: u8)
where
    T: HasModel + Merge<T> + PartialEq + PartialOrd,
{
    let before = x.clone();
    let mut a = x;
    let ch = a.merge(y.clone());

    let grew_model = !a.model().eqv(&before.model());
    assert!(ch == grew_model, "C02 flag != (model value changed)");
    assert!(ch == (a != before), "C02 flag != (value changed by ==)");
    assert!(before.model().le(&a.model()), "C02 merge did not move upwards (model)");
    if ch {
        assert!(before.partial_cmp(&a) == Some(Less), "C02 flag true but receiver not strictly greater (partial_cmp)");
        assert!(!y.model().le(&before.model()), "C02 flag true but delta was already <= receiver (model)");
    } else {
        assert!(
            matches!(y.partial_cmp(&before), Some(Less | Equal)),
            "C02 flag false but delta not <= receiver (partial_cmp)"
        );
        assert!(y.model().le(&before.model()), "C02 flag false but delta not <= receiver (model)");
    }
    cov!(!on(m, A) || ch, "flag true");
    cov!(!on(m, B) || !ch, "flag false");
}

/// C03 (part m): comparisons, bottom, top agree with the independent model order.
/// witnesses: A = less, B = greater, C = incomparable, D = equal.
pub fn c03m<T>(m: u8)
where
    T: Lat + PartialEq + PartialOrd + IsBot + IsTop,
{
    c03m_on(T::sym(), T::sym(), m)
}
pub fn c03m_on<T>(x: T, y: T, m: u8)
where
    T: HasModel + PartialEq + PartialOrd + IsBot + IsTop,
{
    let (mx, my) = (x.model(), y.model());
    let mc = mx.cmp(&my);
    assert!(x.partial_cmp(&y) == mc, "C03 partial_cmp != model order");
    assert!((x == y) == (mc == Some(Equal)), "C03 eq != model equivalence");
    assert!(!x.is_bot() || mx.is_bot(), "C03 is_bot true for a value that is not the least element");
    assert!(x.is_bot() || !mx.is_bot(), "C03 is_bot false for the least element");
    assert!(!x.is_top() || mx.is_top(), "C03 is_top true for a value that is not the greatest element");
    assert!(x.is_top() || !mx.is_top(), "C03 is_top false for the greatest element");
    // bottom / top against the crate's own order
    assert!(!x.is_bot() || x <= y, "C03 is_bot but not least");
    assert!(!x.is_top() || y <= x, "C03 is_top but not greatest");
    cov!(!on(m, A) || mc == Some(Less), "less");
    cov!(!on(m, B) || mc == Some(Greater), "greater");
    cov!(!on(m, C) || mc.is_none(), "incomparable");
    cov!(!on(m, D) || mc == Some(Equal), "equal");
}

/// C03 (part o): `a <= b` iff merging `a` into `b` leaves `b` unchanged (re-derived here, not via
/// `naive_cmp`), equality is the induced equivalence, duality.
/// witnesses: A = below, B = not below.
pub fn c03o<T>(m: u8)
where
    T: Lat + Merge<T> + PartialEq + PartialOrd,
{
    c03o_on(T::sym(), T::sym(), m)
}
pub fn c03o_on<T>(x: T, y: T, m: u8)
where
    T: HasModel + Merge<T> + PartialEq + PartialOrd,
{
    let yy = Merge::merge_owned(y.clone(), x.clone());
    let le = x <= y;
    assert!(le == (yy == y), "C03 (x <= y) != (merge(y,x) == y)");
    assert!(x == x, "C03 reflexive ==");
    assert!(x.partial_cmp(&x) == Some(Equal), "C03 reflexive partial_cmp");
    assert!((x == y) == (y == x), "C03 symmetric ==");
    assert!((x == y) == (x.partial_cmp(&y) == Some(Equal)), "C03 == iff Equal");
    assert!(!(le && y <= x) || x == y, "C03 antisymmetry");
    assert!((x < y) == (y > x), "C03 duality");
    assert!(le == (x < y || x == y), "C03 <= iff < or ==");
    cov!(!on(m, A) || le, "below");
    cov!(!on(m, B) || !le, "not below");
}

/// C03 (part n): the crate's own merge-derived order `NaiveLatticeOrd::naive_cmp` (built from the
/// change flags of two merges) equals `partial_cmp` — the statement the crate's `check_lattice_ord` samples.
pub fn c03n<T>(_m: u8)
where
    T: Lat + Merge<T> + PartialOrd + lattices::NaiveLatticeOrd,
{
    c03n_on(T::sym(), T::sym())
}
pub fn c03n_on<T>(x: T, y: T)
where
    T: HasModel + Merge<T> + PartialOrd + lattices::NaiveLatticeOrd,
{
    let n = x.naive_cmp(&y);
    assert!(n == x.partial_cmp(&y), "C03 naive_cmp (merge-derived order) != partial_cmp");
    assert!(n == x.model().cmp(&y.model()), "C03 naive_cmp (merge-derived order) != model order");
    cov!(n.is_some(), "comparable");
}

/// C03 (part t): transitivity on a symbolic triple with the crate's own operators.
/// witnesses: A = chain x<=y<=z, B = strict chain.
pub fn c03t<T>(m: u8)
where
    T: Lat + PartialEq + PartialOrd,
{
    c03t_on(T::sym(), T::sym(), T::sym(), m)
}
pub fn c03t_on<T>(x: T, y: T, z: T, m: u8)
where
    T: HasModel + PartialEq + PartialOrd,
{
    let (xy, yz) = (x <= y, y <= z);
    assert!(!(xy && yz) || x <= z, "C03 transitivity <=");
    assert!(!(x == y && y == z) || x == z, "C03 transitivity ==");
    cov!(!on(m, A) || (xy && yz), "chain");
    cov!(!on(m, B) || (xy && yz && !(z <= x)), "strict chain");
}

/// C03: `Default` is bottom.
pub fn c03_default<T>()
where
    T: HasModel + Default + IsBot,
{
    let d = T::default();
    assert!(d.is_bot(), "C03 default is not is_bot");
    assert!(d.model().is_bot(), "C03 default is not the model's bottom");
    cov!(true, "reached end");
}

/// C04: merge computes the documented join. witnesses: A = changed, B = unchanged.
pub fn c04<T>(m: u8)
where
    T: Lat + Merge<T> + LatticeFrom<T>,
{
    c04_on(T::sym(), T::sym(), m)
}
pub fn c04_on<T>(x: T, y: T, m: u8)
where
    T: HasModel + Merge<T> + LatticeFrom<T>,
{
    let want = x.model().join(&y.model());
    let mut a = x.clone();
    let ch = a.merge(y.clone());
    assert!(a.model().eqv(&want), "C04 merge result != model join");
    let b = Merge::merge_owned(x.clone(), y.clone());
    assert!(b.model().eqv(&want), "C04 merge_owned result != model join");
    let c = T::lattice_from(y.clone());
    assert!(c.model().eqv(&y.model()), "C04 lattice_from(self type) changed the value");
    cov!(!on(m, A) || ch, "changed");
    cov!(!on(m, B) || !ch, "unchanged");
}

/// C02+C04 for heterogeneous merges `A: Merge<B>`: same model result and exact flag.
/// witnesses: A = changed, B = unchanged.
pub fn het_merge_on<X, Y>(a0: X, b: Y, m: u8)
where
    X: HasModel + Merge<Y>,
    Y: HasModel<M = X::M>,
{
    let (ma, mb) = (a0.model(), b.model());
    let mut a = a0.clone();
    let ch = a.merge(b);
    assert!(a.model().eqv(&ma.join(&mb)), "C04 heterogeneous merge != model join");
    assert!(ch == !a.model().eqv(&ma), "C02 heterogeneous merge flag != (value changed)");
    cov!(!on(m, A) || ch, "changed");
    cov!(!on(m, B) || !ch, "unchanged");
}

/// C03 for cross-representation comparisons. witnesses: A = equal, B = not equal.
pub fn het_cmp_on<X, Y>(a: X, b: Y, m: u8)
where
    X: HasModel + PartialOrd<Y> + PartialEq<Y>,
    Y: HasModel<M = X::M>,
{
    let mc = a.model().cmp(&b.model());
    assert!(a.partial_cmp(&b) == mc, "C03 cross-representation partial_cmp != model order");
    assert!((a == b) == (mc == Some(Equal)), "C03 cross-representation eq != model equivalence");
    cov!(!on(m, A) || mc == Some(Equal), "equal");
    cov!(!on(m, B) || mc != Some(Equal), "not equal");
}

/// C04 for conversions.
pub fn het_from_on<X, Y>(b: Y)
where
    X: HasModel + LatticeFrom<Y>,
    Y: HasModel<M = X::M>,
{
    let mb = b.model();
    let a = X::lattice_from(b);
    assert!(a.model().eqv(&mb), "C04 lattice_from changed the value");
    cov!(true, "reached end");
}
