//! Harness-side fixed-capacity, heap-free collections implementing exactly the `cc_traits` bounds the
//! repository's generic lattice impls ask for (DESIGN §2 rule 4). The *lattice* code that runs on top
//! of them is the repository's; these are the type parameter. Their own set/map semantics are checked
//! by the `cap_*` harnesses (trusted-base validation).

use core::borrow::Borrow;

use lattices::cc_traits::{
    Clear, Collection, CollectionMut, CollectionRef, Get, GetKeyValue, GetKeyValueMut, GetMut, Insert, Iter, Keyed,
    KeyedRef, Len, MapInsert, MapIter, Remove, SimpleCollectionRef, SimpleKeyedRef, covariant_item_mut,
    covariant_item_ref, covariant_key_ref, simple_collection_ref, simple_keyed_ref,
};

// ---------------------------------------------------------------------------------------------
// CapSet
// ---------------------------------------------------------------------------------------------

/// Storage is a plain `[T; CAP]` + `len` (no `Option` slots): an `Option` slot would give the type a
/// niche that an outer `Option<CapSet<..>>` (map values!) re-uses, and Kani 0.68 then reports spurious
/// "unreachable code" in `Option::as_ref` that does not reproduce natively (DESIGN §6, false alarms).
#[derive(Clone, Copy, Debug)]
pub struct CapSet<T, const CAP: usize> {
    pub items: [T; CAP],
    pub len: usize,
}
impl<T: Copy + Eq + Default, const CAP: usize> Default for CapSet<T, CAP> {
    fn default() -> Self {
        CapSet { items: [T::default(); CAP], len: 0 }
    }
}
impl<T: Copy + Eq + Default, const CAP: usize> CapSet<T, CAP> {
    pub fn has(&self, x: &T) -> bool {
        self.pos(x).is_some()
    }
    pub fn pos(&self, x: &T) -> Option<usize> {
        let mut i = 0;
        while i < self.len {
            if self.items[i] == *x {
                return Some(i);
            }
            i += 1;
        }
        None
    }
    /// set insert; returns true when new
    pub fn put(&mut self, x: T) -> bool {
        if self.has(&x) {
            false
        } else {
            assert!(self.len < CAP, "CapSet capacity (harness sizing error)");
            self.items[self.len] = x;
            self.len += 1;
            true
        }
    }
    pub fn take(&mut self, x: &T) -> Option<T> {
        match self.pos(x) {
            Some(i) => {
                let r = self.items[i];
                // swap-remove keeps the prefix dense
                self.items[i] = self.items[self.len - 1];
                self.len -= 1;
                Some(r)
            }
            None => None,
        }
    }
    pub fn of(xs: &[T]) -> Self {
        let mut s = Self::default();
        for x in xs {
            s.put(*x);
        }
        s
    }
}
pub struct CapSetIter<'a, T, const CAP: usize> {
    s: &'a CapSet<T, CAP>,
    i: usize,
}
impl<'a, T, const CAP: usize> Iterator for CapSetIter<'a, T, CAP> {
    type Item = &'a T;
    fn next(&mut self) -> Option<&'a T> {
        if self.i < self.s.len && self.i < CAP {
            let r = &self.s.items[self.i];
            self.i += 1;
            Some(r)
        } else {
            None
        }
    }
}
pub struct CapSetIntoIter<T, const CAP: usize> {
    s: CapSet<T, CAP>,
    i: usize,
}
impl<T: Copy, const CAP: usize> Iterator for CapSetIntoIter<T, CAP> {
    type Item = T;
    fn next(&mut self) -> Option<T> {
        if self.i < self.s.len && self.i < CAP {
            let r = self.s.items[self.i];
            self.i += 1;
            Some(r)
        } else {
            None
        }
    }
}
impl<T: Copy, const CAP: usize> IntoIterator for CapSet<T, CAP> {
    type Item = T;
    type IntoIter = CapSetIntoIter<T, CAP>;
    fn into_iter(self) -> Self::IntoIter {
        CapSetIntoIter { s: self, i: 0 }
    }
}
impl<T: Copy + Eq + Default, const CAP: usize> Extend<T> for CapSet<T, CAP> {
    fn extend<I: IntoIterator<Item = T>>(&mut self, iter: I) {
        for x in iter {
            self.put(x);
        }
    }
}
impl<T: Copy + Eq + Default, const CAP: usize> FromIterator<T> for CapSet<T, CAP> {
    fn from_iter<I: IntoIterator<Item = T>>(iter: I) -> Self {
        let mut s = Self::default();
        s.extend(iter);
        s
    }
}
impl<T, const CAP: usize> Collection for CapSet<T, CAP> {
    type Item = T;
}
impl<T, const CAP: usize> Len for CapSet<T, CAP> {
    fn len(&self) -> usize {
        self.len
    }
}
impl<T, const CAP: usize> CollectionRef for CapSet<T, CAP> {
    type ItemRef<'a>
        = &'a T
    where
        Self: 'a;
    covariant_item_ref!();
}
impl<T, const CAP: usize> SimpleCollectionRef for CapSet<T, CAP> {
    simple_collection_ref!();
}
impl<'a, Q, T, const CAP: usize> Get<&'a Q> for CapSet<T, CAP>
where
    T: Borrow<Q>,
    Q: Eq + ?Sized,
{
    fn get(&self, key: &'a Q) -> Option<&T> {
        let mut i = 0;
        while i < self.len {
            if self.items[i].borrow() == key {
                return Some(&self.items[i]);
            }
            i += 1;
        }
        None
    }
}
impl<T, const CAP: usize> Iter for CapSet<T, CAP> {
    type Iter<'a>
        = CapSetIter<'a, T, CAP>
    where
        Self: 'a;
    fn iter(&self) -> Self::Iter<'_> {
        CapSetIter { s: self, i: 0 }
    }
}
impl<T: Copy + Eq + Default, const CAP: usize> Insert for CapSet<T, CAP> {
    type Output = bool;
    fn insert(&mut self, element: T) -> bool {
        self.put(element)
    }
}
impl<'a, T: Copy + Eq + Default, const CAP: usize> Remove<&'a T> for CapSet<T, CAP> {
    fn remove(&mut self, key: &'a T) -> Option<T> {
        self.take(key)
    }
}
impl<T: Copy + Eq + Default, const CAP: usize> Clear for CapSet<T, CAP> {
    fn clear(&mut self) {
        *self = Self::default();
    }
}

// ---------------------------------------------------------------------------------------------
// CapMap
// ---------------------------------------------------------------------------------------------

#[derive(Clone, Debug)]
pub struct CapMap<K, V, const CAP: usize> {
    pub keys: [Option<K>; CAP],
    pub vals: [Option<V>; CAP],
    pub len: usize,
}
impl<K: Copy, V: Copy, const CAP: usize> Copy for CapMap<K, V, CAP> {}
impl<K, V, const CAP: usize> Default for CapMap<K, V, CAP> {
    fn default() -> Self {
        CapMap { keys: core::array::from_fn(|_| None), vals: core::array::from_fn(|_| None), len: 0 }
    }
}
impl<K: Eq, V, const CAP: usize> CapMap<K, V, CAP> {
    pub fn pos<Q: Eq + ?Sized>(&self, k: &Q) -> Option<usize>
    where
        K: Borrow<Q>,
    {
        let mut i = 0;
        while i < self.len {
            {
                if let Some(kk) = self.keys[i].as_ref() {
                    if kk.borrow() == k {
                        return Some(i);
                    }
                }
            }
            i += 1;
        }
        None
    }
    pub fn put(&mut self, k: K, v: V) -> Option<V> {
        match self.pos(&k) {
            Some(i) => self.vals[i].replace(v),
            None => {
                assert!(self.len < CAP, "CapMap capacity (harness sizing error)");
                self.keys[self.len] = Some(k);
                self.vals[self.len] = Some(v);
                self.len += 1;
                None
            }
        }
    }
    pub fn take<Q: Eq + ?Sized>(&mut self, k: &Q) -> Option<V>
    where
        K: Borrow<Q>,
    {
        match self.pos(k) {
            Some(i) => {
                let r = self.vals[i].take();
                let last = self.len - 1;
                if i != last {
                    self.keys[i] = self.keys[last].take();
                    self.vals[i] = self.vals[last].take();
                } else {
                    self.keys[i] = None;
                }
                self.len -= 1;
                r
            }
            None => None,
        }
    }
    pub fn val(&self, k: &K) -> Option<&V> {
        match self.pos(k) {
            Some(i) => self.vals[i].as_ref(),
            None => None,
        }
    }
}
pub struct CapMapIter<'a, K, V, const CAP: usize> {
    m: &'a CapMap<K, V, CAP>,
    i: usize,
}
impl<'a, K, V, const CAP: usize> Iterator for CapMapIter<'a, K, V, CAP> {
    type Item = (&'a K, &'a V);
    fn next(&mut self) -> Option<Self::Item> {
        if self.i < self.m.len && self.i < CAP {
            let k = self.m.keys[self.i].as_ref().unwrap();
            let v = self.m.vals[self.i].as_ref().unwrap();
            self.i += 1;
            Some((k, v))
        } else {
            None
        }
    }
}
pub struct CapMapValIter<'a, K, V, const CAP: usize> {
    m: &'a CapMap<K, V, CAP>,
    i: usize,
}
impl<'a, K, V, const CAP: usize> Iterator for CapMapValIter<'a, K, V, CAP> {
    type Item = &'a V;
    fn next(&mut self) -> Option<Self::Item> {
        if self.i < self.m.len && self.i < CAP {
            let v = self.m.vals[self.i].as_ref().unwrap();
            self.i += 1;
            Some(v)
        } else {
            None
        }
    }
}
pub struct CapMapIntoIter<K, V, const CAP: usize> {
    m: CapMap<K, V, CAP>,
    i: usize,
}
impl<K, V, const CAP: usize> Iterator for CapMapIntoIter<K, V, CAP> {
    type Item = (K, V);
    fn next(&mut self) -> Option<Self::Item> {
        if self.i < self.m.len && self.i < CAP {
            let k = self.m.keys[self.i].take().unwrap();
            let v = self.m.vals[self.i].take().unwrap();
            self.i += 1;
            Some((k, v))
        } else {
            None
        }
    }
}
impl<K, V, const CAP: usize> IntoIterator for CapMap<K, V, CAP> {
    type Item = (K, V);
    type IntoIter = CapMapIntoIter<K, V, CAP>;
    fn into_iter(self) -> Self::IntoIter {
        CapMapIntoIter { m: self, i: 0 }
    }
}
impl<K: Eq, V, const CAP: usize> Extend<(K, V)> for CapMap<K, V, CAP> {
    fn extend<I: IntoIterator<Item = (K, V)>>(&mut self, iter: I) {
        for (k, v) in iter {
            self.put(k, v);
        }
    }
}
impl<K: Eq, V, const CAP: usize> FromIterator<(K, V)> for CapMap<K, V, CAP> {
    fn from_iter<I: IntoIterator<Item = (K, V)>>(iter: I) -> Self {
        let mut s = Self::default();
        s.extend(iter);
        s
    }
}
impl<K, V, const CAP: usize> Collection for CapMap<K, V, CAP> {
    type Item = V;
}
impl<K, V, const CAP: usize> Len for CapMap<K, V, CAP> {
    fn len(&self) -> usize {
        self.len
    }
}
impl<K, V, const CAP: usize> CollectionRef for CapMap<K, V, CAP> {
    type ItemRef<'a>
        = &'a V
    where
        Self: 'a;
    covariant_item_ref!();
}
impl<K, V, const CAP: usize> SimpleCollectionRef for CapMap<K, V, CAP> {
    simple_collection_ref!();
}
impl<K, V, const CAP: usize> CollectionMut for CapMap<K, V, CAP> {
    type ItemMut<'a>
        = &'a mut V
    where
        Self: 'a;
    covariant_item_mut!();
}
impl<K, V, const CAP: usize> Keyed for CapMap<K, V, CAP> {
    type Key = K;
}
impl<K, V, const CAP: usize> KeyedRef for CapMap<K, V, CAP> {
    type KeyRef<'a>
        = &'a K
    where
        Self: 'a;
    covariant_key_ref!();
}
impl<K, V, const CAP: usize> SimpleKeyedRef for CapMap<K, V, CAP> {
    simple_keyed_ref!();
}
impl<'a, Q, K, V, const CAP: usize> Get<&'a Q> for CapMap<K, V, CAP>
where
    K: Borrow<Q> + Eq,
    Q: Eq + ?Sized,
{
    fn get(&self, key: &'a Q) -> Option<&V> {
        match self.pos(key) {
            Some(i) => self.vals[i].as_ref(),
            None => None,
        }
    }
}
impl<'a, Q, K, V, const CAP: usize> GetMut<&'a Q> for CapMap<K, V, CAP>
where
    K: Borrow<Q> + Eq,
    Q: Eq + ?Sized,
{
    fn get_mut(&mut self, key: &'a Q) -> Option<&mut V> {
        match self.pos(key) {
            Some(i) => self.vals[i].as_mut(),
            None => None,
        }
    }
}
impl<'a, Q, K, V, const CAP: usize> GetKeyValue<&'a Q> for CapMap<K, V, CAP>
where
    K: Borrow<Q> + Eq,
    Q: Eq + ?Sized,
{
    fn get_key_value(&self, key: &'a Q) -> Option<(&K, &V)> {
        match self.pos(key) {
            Some(i) => Some((self.keys[i].as_ref().unwrap(), self.vals[i].as_ref().unwrap())),
            None => None,
        }
    }
}
impl<'a, Q, K, V, const CAP: usize> GetKeyValueMut<&'a Q> for CapMap<K, V, CAP>
where
    K: Borrow<Q> + Eq,
    Q: Eq + ?Sized,
{
    fn get_key_value_mut(&mut self, key: &'a Q) -> Option<(&K, &mut V)> {
        match self.pos(key) {
            Some(i) => Some((self.keys[i].as_ref().unwrap(), self.vals[i].as_mut().unwrap())),
            None => None,
        }
    }
}
impl<K, V, const CAP: usize> Iter for CapMap<K, V, CAP> {
    type Iter<'a>
        = CapMapValIter<'a, K, V, CAP>
    where
        Self: 'a;
    fn iter(&self) -> Self::Iter<'_> {
        CapMapValIter { m: self, i: 0 }
    }
}
impl<K, V, const CAP: usize> MapIter for CapMap<K, V, CAP> {
    type Iter<'a>
        = CapMapIter<'a, K, V, CAP>
    where
        Self: 'a;
    fn iter(&self) -> Self::Iter<'_> {
        CapMapIter { m: self, i: 0 }
    }
}
impl<K: Eq, V, const CAP: usize> MapInsert<K> for CapMap<K, V, CAP> {
    type Output = Option<V>;
    fn insert(&mut self, key: K, value: V) -> Option<V> {
        self.put(key, value)
    }
}
impl<'a, Q, K, V, const CAP: usize> Remove<&'a Q> for CapMap<K, V, CAP>
where
    K: Borrow<Q> + Eq,
    Q: Eq + ?Sized,
{
    fn remove(&mut self, key: &'a Q) -> Option<V> {
        self.take(key)
    }
}
impl<K, V, const CAP: usize> Clear for CapMap<K, V, CAP> {
    fn clear(&mut self) {
        *self = Self::default();
    }
}
