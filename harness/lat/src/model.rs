//! Independent mathematical models of the shipped lattices ("textbook" definitions, written from
//! the documentation, not from the implementation). The harnesses compare the repository's
//! `Merge` / `PartialOrd` / `PartialEq` / `IsBot` / `IsTop` against these.

use core::cmp::Ordering;

pub trait Model: Clone {
    fn join(&self, o: &Self) -> Self;
    fn le(&self, o: &Self) -> bool;
    fn is_bot(&self) -> bool;
    fn is_top(&self) -> bool;
    fn eqv(&self, o: &Self) -> bool {
        self.le(o) && o.le(self)
    }
    fn cmp(&self, o: &Self) -> Option<Ordering> {
        match (self.le(o), o.le(self)) {
            (true, true) => Some(Ordering::Equal),
            (true, false) => Some(Ordering::Less),
            (false, true) => Some(Ordering::Greater),
            (false, false) => None,
        }
    }
}

pub trait Bounded: Copy + Ord {
    const LO: Self;
    const HI: Self;
}
macro_rules! bounded {
    ($($t:ty),*) => {$( impl Bounded for $t { const LO: Self = <$t>::MIN; const HI: Self = <$t>::MAX; } )*};
}
bounded!(u8, u16, u32, u64, u128, usize, i8, i16, i32, i64, i128, isize);
impl Bounded for bool {
    const LO: Self = false;
    const HI: Self = true;
}
impl Bounded for char {
    const LO: Self = '\0';
    const HI: Self = char::MAX;
}

/// `Max<T>`: the chain (T, ≤).
#[derive(Clone, Copy, Debug)]
pub struct MMax<T>(pub T);
impl<T: Bounded> Model for MMax<T> {
    fn join(&self, o: &Self) -> Self {
        MMax(if self.0 >= o.0 { self.0 } else { o.0 })
    }
    fn le(&self, o: &Self) -> bool {
        self.0 <= o.0
    }
    fn is_bot(&self) -> bool {
        self.0 == T::LO
    }
    fn is_top(&self) -> bool {
        self.0 == T::HI
    }
}

/// `Min<T>`: the chain (T, ≥).
#[derive(Clone, Copy, Debug)]
pub struct MMin<T>(pub T);
impl<T: Bounded> Model for MMin<T> {
    fn join(&self, o: &Self) -> Self {
        MMin(if self.0 <= o.0 { self.0 } else { o.0 })
    }
    fn le(&self, o: &Self) -> bool {
        self.0 >= o.0
    }
    fn is_bot(&self) -> bool {
        self.0 == T::HI
    }
    fn is_top(&self) -> bool {
        self.0 == T::LO
    }
}

/// Unit lattice / `Point`: one element.
#[derive(Clone, Copy, Debug)]
pub struct MUnit;
impl Model for MUnit {
    fn join(&self, _: &Self) -> Self {
        MUnit
    }
    fn le(&self, _: &Self) -> bool {
        true
    }
    fn is_bot(&self) -> bool {
        true
    }
    fn is_top(&self) -> bool {
        true
    }
}

/// `WithBot<L>`: L with a new least element `None` adjoined; `Some(⊥_L)` is identified with `None`
/// (documented: "bot collapsing").
#[derive(Clone, Copy, Debug)]
pub struct MBot<M>(pub Option<M>);
impl<M: Model> Model for MBot<M> {
    fn join(&self, o: &Self) -> Self {
        match (&self.0, &o.0) {
            (None, None) => MBot(None),
            (Some(a), None) => MBot(Some(a.clone())),
            (None, Some(b)) => MBot(Some(b.clone())),
            (Some(a), Some(b)) => MBot(Some(a.join(b))),
        }
    }
    fn le(&self, o: &Self) -> bool {
        match (&self.0, &o.0) {
            (None, _) => true,
            (Some(a), None) => a.is_bot(),
            (Some(a), Some(b)) => a.le(b),
        }
    }
    fn is_bot(&self) -> bool {
        match &self.0 {
            None => true,
            Some(a) => a.is_bot(),
        }
    }
    fn is_top(&self) -> bool {
        match &self.0 {
            None => false,
            Some(a) => a.is_top(),
        }
    }
}

/// `WithTop<L>`: L with a new greatest element `None` adjoined (strictly above every `Some`).
#[derive(Clone, Copy, Debug)]
pub struct MTop<M>(pub Option<M>);
impl<M: Model> Model for MTop<M> {
    fn join(&self, o: &Self) -> Self {
        match (&self.0, &o.0) {
            (Some(a), Some(b)) => MTop(Some(a.join(b))),
            _ => MTop(None),
        }
    }
    fn le(&self, o: &Self) -> bool {
        match (&self.0, &o.0) {
            (_, None) => true,
            (None, Some(_)) => false,
            (Some(a), Some(b)) => a.le(b),
        }
    }
    fn is_bot(&self) -> bool {
        match &self.0 {
            None => false,
            Some(a) => a.is_bot(),
        }
    }
    fn is_top(&self) -> bool {
        self.0.is_none()
    }
}

/// `Pair<A,B>` and derived lattice structs: component-wise product.
impl<A: Model, B: Model> Model for (A, B) {
    fn join(&self, o: &Self) -> Self {
        (self.0.join(&o.0), self.1.join(&o.1))
    }
    fn le(&self, o: &Self) -> bool {
        self.0.le(&o.0) && self.1.le(&o.1)
    }
    fn is_bot(&self) -> bool {
        self.0.is_bot() && self.1.is_bot()
    }
    fn is_top(&self) -> bool {
        self.0.is_top() && self.1.is_top()
    }
}
impl<A: Model, B: Model, C: Model> Model for (A, B, C) {
    fn join(&self, o: &Self) -> Self {
        (self.0.join(&o.0), self.1.join(&o.1), self.2.join(&o.2))
    }
    fn le(&self, o: &Self) -> bool {
        self.0.le(&o.0) && self.1.le(&o.1) && self.2.le(&o.2)
    }
    fn is_bot(&self) -> bool {
        self.0.is_bot() && self.1.is_bot() && self.2.is_bot()
    }
    fn is_top(&self) -> bool {
        self.0.is_top() && self.1.is_top() && self.2.is_top()
    }
}

/// `DomPair<K,V>`: lexicographic — the larger key wins, equal keys merge values; for incomparable
/// keys both components are joined (only a lattice when K is a chain).
#[derive(Clone, Copy, Debug)]
pub struct MDom<K, V>(pub K, pub V);
impl<K: Model, V: Model> Model for MDom<K, V> {
    fn join(&self, o: &Self) -> Self {
        match self.0.cmp(&o.0) {
            Some(Ordering::Equal) => MDom(self.0.clone(), self.1.join(&o.1)),
            Some(Ordering::Less) => o.clone(),
            Some(Ordering::Greater) => self.clone(),
            None => MDom(self.0.join(&o.0), self.1.join(&o.1)),
        }
    }
    fn le(&self, o: &Self) -> bool {
        match self.0.cmp(&o.0) {
            Some(Ordering::Equal) => self.1.le(&o.1),
            Some(Ordering::Less) => true,
            _ => false,
        }
    }
    fn is_bot(&self) -> bool {
        self.0.is_bot() && self.1.is_bot()
    }
    fn is_top(&self) -> bool {
        self.0.is_top() && self.1.is_top()
    }
}

/// `Conflict<T>`: flat lattice without bottom: `Some(x)` incomparable atoms, `None` = conflict = top.
#[derive(Clone, Copy, Debug)]
pub struct MConf<T>(pub Option<T>);
impl<T: Copy + Eq> Model for MConf<T> {
    fn join(&self, o: &Self) -> Self {
        match (self.0, o.0) {
            (Some(a), Some(b)) if a == b => MConf(Some(a)),
            _ => MConf(None),
        }
    }
    fn le(&self, o: &Self) -> bool {
        match (self.0, o.0) {
            (_, None) => true,
            (None, Some(_)) => false,
            (Some(a), Some(b)) => a == b,
        }
    }
    fn is_bot(&self) -> bool {
        false
    }
    fn is_top(&self) -> bool {
        self.0.is_none()
    }
}

/// Finite set of `u8` (capacity N; duplicates harmless): the powerset lattice.
#[derive(Clone, Copy, Debug)]
pub struct MSet<const N: usize> {
    pub items: [u8; N],
    pub len: usize,
}
impl<const N: usize> MSet<N> {
    pub fn empty() -> Self {
        MSet { items: [0; N], len: 0 }
    }
    pub fn has(&self, x: u8) -> bool {
        let mut i = 0;
        while i < self.len {
            if self.items[i] == x {
                return true;
            }
            i += 1;
        }
        false
    }
    pub fn add(&mut self, x: u8) {
        if !self.has(x) {
            assert!(self.len < N, "MSet capacity (harness sizing error)");
            self.items[self.len] = x;
            self.len += 1;
        }
    }
    pub fn from_iter<'a>(it: impl Iterator<Item = &'a u8>) -> Self {
        let mut s = Self::empty();
        for x in it {
            s.add(*x);
        }
        s
    }
    /// number of distinct elements
    pub fn card(&self) -> usize {
        // `add` dedups, so len is the cardinality
        self.len
    }
}
impl<const N: usize> Model for MSet<N> {
    fn join(&self, o: &Self) -> Self {
        let mut r = *self;
        let mut i = 0;
        while i < o.len {
            {
                r.add(o.items[i]);
            }
            i += 1;
        }
        r
    }
    fn le(&self, o: &Self) -> bool {
        let mut i = 0;
        while i < self.len {
            if !o.has(self.items[i]) {
                return false;
            }
            i += 1;
        }
        true
    }
    fn is_bot(&self) -> bool {
        self.len == 0
    }
    fn is_top(&self) -> bool {
        false
    }
}

/// Finite map `u8 -> V` with bottom-valued entries invisible: key-wise lattice.
#[derive(Clone, Debug)]
pub struct MMap<V, const N: usize> {
    pub keys: [u8; N],
    pub vals: [Option<V>; N],
    pub len: usize,
}
impl<V: Model, const N: usize> MMap<V, N> {
    pub fn empty() -> Self {
        MMap { keys: [0; N], vals: core::array::from_fn(|_| None), len: 0 }
    }
    pub fn pos(&self, k: u8) -> Option<usize> {
        let mut i = 0;
        while i < self.len {
            if self.keys[i] == k {
                return Some(i);
            }
            i += 1;
        }
        None
    }
    /// value at `k`, `None` when absent *or bottom*
    pub fn at(&self, k: u8) -> Option<&V> {
        match self.pos(k) {
            Some(i) => match &self.vals[i] {
                Some(v) if !v.is_bot() => Some(v),
                _ => None,
            },
            None => None,
        }
    }
    /// join `v` into the entry at `k`
    pub fn put(&mut self, k: u8, v: V) {
        match self.pos(k) {
            Some(i) => {
                let nv = match &self.vals[i] {
                    Some(old) => old.join(&v),
                    None => v,
                };
                self.vals[i] = Some(nv);
            }
            None => {
                assert!(self.len < N, "MMap capacity (harness sizing error)");
                self.keys[self.len] = k;
                self.vals[self.len] = Some(v);
                self.len += 1;
            }
        }
    }
}
impl<V: Model, const N: usize> Model for MMap<V, N> {
    fn join(&self, o: &Self) -> Self {
        let mut r = self.clone();
        let mut i = 0;
        while i < o.len {
            {
                if let Some(v) = &o.vals[i] {
                    r.put(o.keys[i], v.clone());
                }
            }
            i += 1;
        }
        r
    }
    fn le(&self, o: &Self) -> bool {
        let mut i = 0;
        while i < self.len {
            {
                if let Some(v) = &self.vals[i] {
                    if !v.is_bot() {
                        match o.at(self.keys[i]) {
                            Some(w) => {
                                if !v.le(w) {
                                    return false;
                                }
                            }
                            None => return false,
                        }
                    }
                }
            }
            i += 1;
        }
        true
    }
    fn is_bot(&self) -> bool {
        let mut i = 0;
        while i < self.len {
            {
                if let Some(v) = &self.vals[i] {
                    if !v.is_bot() {
                        return false;
                    }
                }
            }
            i += 1;
        }
        true
    }
    fn is_top(&self) -> bool {
        false
    }
}

/// `VecUnion<L>`: index-wise join, the shorter vector is extended. Length is observable
/// (`[a] < [a, ⊥]`), exactly as the crate documents ("growing vec").
#[derive(Clone, Debug)]
pub struct MVec<V, const N: usize> {
    pub vals: [Option<V>; N],
    pub len: usize,
}
impl<V: Model, const N: usize> Model for MVec<V, N> {
    fn join(&self, o: &Self) -> Self {
        let mut r = self.clone();
        let mut i = 0;
        while i < o.len {
            {
                let ov = o.vals[i].clone().unwrap();
                r.vals[i] = Some(if i < self.len { self.vals[i].as_ref().unwrap().join(&ov) } else { ov });
            }
            i += 1;
        }
        if o.len > r.len {
            r.len = o.len;
        }
        r
    }
    fn le(&self, o: &Self) -> bool {
        if self.len > o.len {
            return false;
        }
        let mut i = 0;
        while i < self.len {
            if !self.vals[i].as_ref().unwrap().le(o.vals[i].as_ref().unwrap()) {
                return false;
            }
            i += 1;
        }
        true
    }
    fn is_bot(&self) -> bool {
        self.len == 0
    }
    fn is_top(&self) -> bool {
        false
    }
}

/// Partition of {0..D} as an equivalence matrix (union-find model): finer ≤ coarser.
#[derive(Clone, Copy, Debug)]
pub struct MPart<const D: usize> {
    pub rel: [[bool; D]; D],
}
impl<const D: usize> MPart<D> {
    pub fn discrete() -> Self {
        let mut rel = [[false; D]; D];
        let mut i = 0;
        while i < D {
            rel[i][i] = true;
            i += 1;
        }
        MPart { rel }
    }
    pub fn link(&mut self, a: usize, b: usize) {
        self.rel[a][b] = true;
        self.rel[b][a] = true;
        self.close();
    }
    /// reflexive-symmetric-transitive closure (Warshall)
    pub fn close(&mut self) {
        let mut k = 0;
        while k < D {
            let mut i = 0;
            while i < D {
                let mut j = 0;
                while j < D {
                    if self.rel[i][k] && self.rel[k][j] {
                        self.rel[i][j] = true;
                    }
                    j += 1;
                }
                i += 1;
            }
            k += 1;
        }
    }
    pub fn same(&self, a: usize, b: usize) -> bool {
        self.rel[a][b]
    }
}
impl<const D: usize> Model for MPart<D> {
    fn join(&self, o: &Self) -> Self {
        let mut r = *self;
        let mut i = 0;
        while i < D {
            let mut j = 0;
            while j < D {
                if o.rel[i][j] {
                    r.rel[i][j] = true;
                }
                j += 1;
            }
            i += 1;
        }
        r.close();
        r
    }
    fn le(&self, o: &Self) -> bool {
        let mut i = 0;
        while i < D {
            let mut j = 0;
            while j < D {
                if self.rel[i][j] && !o.rel[i][j] {
                    return false;
                }
                j += 1;
            }
            i += 1;
        }
        true
    }
    fn is_bot(&self) -> bool {
        let mut i = 0;
        while i < D {
            let mut j = 0;
            while j < D {
                if i != j && self.rel[i][j] {
                    return false;
                }
                j += 1;
            }
            i += 1;
        }
        true
    }
    fn is_top(&self) -> bool {
        false
    }
}
