//! `#[derive(Lattice)]` structs declared here so that the real proc-macro output of
//! `lattices_macro` is what gets compiled and verified.
use lattices::{Conflict, Lattice, Max, Min, WithBot};

use crate::model::*;
use crate::types::{HasModel, Lat};

#[derive(Clone, Debug, Default, Lattice)]
pub struct D1<A> {
    pub only: A,
}
impl<A: HasModel> HasModel for D1<A> {
    type M = (A::M, MUnit);
    fn model(&self) -> Self::M {
        (self.only.model(), MUnit)
    }
}
impl<A: Lat> Lat for D1<A> {
    fn sym() -> Self {
        D1 { only: A::sym() }
    }
}

#[derive(Clone, Debug, Default, Lattice)]
pub struct D2<A, B> {
    pub first: A,
    pub second: B,
}
impl<A: HasModel, B: HasModel> HasModel for D2<A, B> {
    type M = (A::M, B::M);
    fn model(&self) -> Self::M {
        (self.first.model(), self.second.model())
    }
}
impl<A: Lat, B: Lat> Lat for D2<A, B> {
    fn sym() -> Self {
        D2 { first: A::sym(), second: B::sym() }
    }
}

/// Non-generic, three fields.
#[derive(Clone, Debug, Default, Lattice)]
pub struct D3 {
    pub hi: Max<u8>,
    pub lo: Min<i8>,
    pub opt: WithBot<Max<u16>>,
}
impl HasModel for D3 {
    type M = (MMax<u8>, MMin<i8>, MBot<MMax<u16>>);
    fn model(&self) -> Self::M {
        (self.hi.model(), self.lo.model(), self.opt.model())
    }
}
impl Lat for D3 {
    fn sym() -> Self {
        D3 { hi: Lat::sym(), lo: Lat::sym(), opt: Lat::sym() }
    }
}

/// Tuple struct.
#[derive(Clone, Debug, Lattice)]
pub struct DT<A>(pub A, pub Max<u8>);
impl<A: HasModel> HasModel for DT<A> {
    type M = (A::M, MMax<u8>);
    fn model(&self) -> Self::M {
        (self.0.model(), self.1.model())
    }
}
impl<A: Lat> Lat for DT<A> {
    fn sym() -> Self {
        DT(A::sym(), Lat::sym())
    }
}
