//! Law bodies specialised to `MapUnion` over the shipped `BTreeMap` representation.
//!
//! Measured (DESIGN §2): `BTreeMap::clone` and the consuming `BTreeMap::into_iter` dominate CBMC time,
//! while a `BTreeMap` *receiver* with concrete keys merging a cheap no-heap delta costs seconds. So a
//! map value is described once by a `Copy` description (`Desc` = CapMap with concrete keys / bottomness
//! and symbolic values) and materialised as often as needed: as the `BTreeMap` receiver (`bt`) or as
//! the delta (`cm`, the same generic `Merge` body iterates it). Nothing is cloned or consumed twice.
use core::cmp::Ordering::*;
use std::collections::BTreeMap;

use lattices::map_union::MapUnion;
use lattices::{IsBot, IsTop, LatticeFrom, Merge};

use crate::cap::CapMap;
use crate::cov;
use crate::laws::{A, B, C, D};
use crate::model::Model;
use crate::types::{HasModel, WbC};

pub type Desc = CapMap<u8, WbC, 4>;
pub type Bt = MapUnion<BTreeMap<u8, WbC>>;
pub type Cm = MapUnion<Desc>;

pub fn desc(ents: &[(u8, WbC)]) -> Desc {
    let mut m = Desc::default();
    let mut i = 0;
    while i < ents.len() {
        m.keys[i] = Some(ents[i].0);
        m.vals[i] = Some(ents[i].1);
        m.len = i + 1;
        i += 1;
    }
    m
}
pub fn bt(d: &Desc) -> Bt {
    let mut m = BTreeMap::new();
    let mut i = 0;
    while i < d.len {
        m.insert(d.keys[i].unwrap(), d.vals[i].unwrap());
        i += 1;
    }
    MapUnion::new(m)
}
pub fn cm(d: &Desc) -> Cm {
    MapUnion::new(*d)
}
#[inline(always)]
fn on(m: u8, bit: u8) -> bool {
    m & bit != 0
}
fn done<T>(v: T) {
    // drop glue of heap values is not part of any property (DESIGN rule 5)
    core::mem::forget(v);
}

pub fn ml_c01i(x: Desc) {
    let mut r = bt(&x);
    let ch = r.merge(cm(&x));
    let orig = bt(&x);
    assert!(!ch, "C01 idempotence: merge(x,x) reported a change");
    assert!(r == orig, "C01 idempotence (==): merge(x,x) != x");
    assert!(r.model().eqv(&orig.model()), "C01 idempotence (model): merge(x,x) != x");
    cov!(true, "reached end");
    done((r, orig));
}
pub fn ml_c01c(x: Desc, y: Desc, m: u8) {
    let mut xy = bt(&x);
    xy.merge(cm(&y));
    let mut yx = bt(&y);
    yx.merge(cm(&x));
    assert!(xy == yx, "C01 commutativity (==): merge(x,y) != merge(y,x)");
    let (mxy, mx, my) = (xy.model(), cm(&x).model(), cm(&y).model());
    assert!(mxy.eqv(&yx.model()), "C01 commutativity (model): merge(x,y) != merge(y,x)");
    cov!(!on(m, B) || (!mxy.eqv(&mx) && !mxy.eqv(&my)), "join differs from both operands");
    cov!(!on(m, A) || !mxy.eqv(&mx), "join differs from receiver");
    done((xy, yx));
}
/// (x+y)+z == (y+z)+x — associativity modulo the separately verified commutativity (the right-hand
/// side never has to turn a `BTreeMap` result back into a delta).
pub fn ml_c01a(x: Desc, y: Desc, z: Desc, m: u8) {
    let mut l = bt(&x);
    l.merge(cm(&y));
    let mxy = l.model();
    l.merge(cm(&z));
    let mut r = bt(&y);
    r.merge(cm(&z));
    r.merge(cm(&x));
    assert!(l == r, "C01 associativity (==): (x+y)+z != (y+z)+x");
    assert!(l.model().eqv(&r.model()), "C01 associativity (model): (x+y)+z != (y+z)+x");
    cov!(!on(m, A) || !mxy.eqv(&cm(&x).model()), "y changes x");
    cov!(!on(m, B) || !l.model().eqv(&mxy), "z changes x+y");
    done((l, r));
}
pub fn ml_c02(x: Desc, y: Desc, m: u8) {
    let before = bt(&x);
    let mut a = bt(&x);
    let ch = a.merge(cm(&y));
    let yb = bt(&y);
    let (ma, mb, my) = (a.model(), before.model(), yb.model());
    assert!(ch == !ma.eqv(&mb), "C02 flag != (model value changed)");
    assert!(ch == (a != before), "C02 flag != (value changed by ==)");
    assert!(mb.le(&ma), "C02 merge did not move upwards (model)");
    if ch {
        assert!(before.partial_cmp(&a) == Some(Less), "C02 flag true but receiver not strictly greater (partial_cmp)");
        assert!(!my.le(&mb), "C02 flag true but delta was already <= receiver (model)");
    } else {
        assert!(matches!(yb.partial_cmp(&before), Some(Less | Equal)), "C02 flag false but delta not <= receiver (partial_cmp)");
        assert!(my.le(&mb), "C02 flag false but delta not <= receiver (model)");
    }
    cov!(!on(m, A) || ch, "flag true");
    cov!(!on(m, B) || !ch, "flag false");
    done((before, a, yb));
}
pub fn ml_c03m(x: Desc, y: Desc, m: u8) {
    let (bx, by) = (bt(&x), bt(&y));
    let (mx, my) = (bx.model(), by.model());
    let mc = mx.cmp(&my);
    assert!(bx.partial_cmp(&by) == mc, "C03 partial_cmp != model order");
    assert!((bx == by) == (mc == Some(Equal)), "C03 eq != model equivalence");
    assert!(bx.is_bot() == mx.is_bot(), "C03 is_bot != (least element of the model)");
    assert!(!bx.is_top(), "C03 is_top true for a value that is not the greatest element");
    assert!(!bx.is_bot() || bx <= by, "C03 is_bot but not least");
    // the no-heap representation of the same value compares identically (cross-representation)
    assert!(cm(&x).partial_cmp(&by) == mc, "C03 cross-representation partial_cmp != model order");
    assert!((bx == cm(&y)) == (mc == Some(Equal)), "C03 cross-representation eq != model equivalence");
    cov!(!on(m, A) || mc == Some(Less), "less");
    cov!(!on(m, B) || mc == Some(Greater), "greater");
    cov!(!on(m, C) || mc.is_none(), "incomparable");
    cov!(!on(m, D) || mc == Some(Equal), "equal");
    done((bx, by));
}
pub fn ml_c03o(x: Desc, y: Desc, m: u8) {
    let (bx, by) = (bt(&x), bt(&y));
    let mut yy = bt(&y);
    yy.merge(cm(&x));
    let le = bx <= by;
    assert!(le == (yy == by), "C03 (x <= y) != (merge(y,x) == y)");
    assert!(bx == bx, "C03 reflexive ==");
    assert!(bx.partial_cmp(&bx) == Some(Equal), "C03 reflexive partial_cmp");
    assert!((bx == by) == (by == bx), "C03 symmetric ==");
    assert!((bx == by) == (bx.partial_cmp(&by) == Some(Equal)), "C03 == iff Equal");
    assert!(!(le && by <= bx) || bx == by, "C03 antisymmetry");
    assert!((bx < by) == (by > bx), "C03 duality");
    cov!(!on(m, A) || le, "below");
    cov!(!on(m, B) || !le, "not below");
    done((bx, by, yy));
}
pub fn ml_c03t(x: Desc, y: Desc, z: Desc, m: u8) {
    let (bx, by, bz) = (bt(&x), bt(&y), bt(&z));
    let (xy, yz) = (bx <= by, by <= bz);
    assert!(!(xy && yz) || bx <= bz, "C03 transitivity <=");
    assert!(!(bx == by && by == bz) || bx == bz, "C03 transitivity ==");
    cov!(!on(m, A) || (xy && yz), "chain");
    cov!(!on(m, B) || (xy && yz && !(bz <= bx)), "strict chain");
    done((bx, by, bz));
}
pub fn ml_c04(x: Desc, y: Desc, m: u8) {
    let want = cm(&x).model().join(&cm(&y).model());
    let mut a = bt(&x);
    let ch = a.merge(cm(&y));
    assert!(a.model().eqv(&want), "C04 merge result != model join");
    let b = Merge::merge_owned(bt(&x), cm(&y));
    assert!(b.model().eqv(&want), "C04 merge_owned result != model join");
    let c = Bt::lattice_from(cm(&y));
    assert!(c.model().eqv(&cm(&y).model()), "C04 lattice_from changed the value");
    cov!(!on(m, A) || ch, "changed");
    cov!(!on(m, B) || !ch, "unchanged");
    done((a, b, c));
}

/// C02+C04 on the shipped `BTreeMap` receiver WITHOUT iterating it: merge a delta, then probe every
/// key of the concrete key domain {0,1,2} through `get` and compare with the model join; flag exact.
pub fn ml_bt_probe(x: Desc, y: Desc, m: u8) {
    let mx = cm(&x).model();
    let want = mx.join(&cm(&y).model());
    let mut a = bt(&x);
    let ch = a.merge(cm(&y));
    let mut k = 0u8;
    while k < 3 {
        let got = a.as_reveal_ref().get(&k).map(|v| v.model());
        match (got, want.at(k)) {
            (Some(v), Some(w)) => assert!(v.eqv(w), "C04 BTreeMap merge: value at key != model join"),
            (Some(v), None) => assert!(v.is_bot(), "C04 BTreeMap merge: spurious non-bottom entry"),
            (None, Some(_)) => assert!(false, "C04 BTreeMap merge: entry missing after merge"),
            (None, None) => {}
        }
        k += 1;
    }
    assert!(ch == !want.eqv(&mx), "C02 BTreeMap merge flag != (value changed)");
    cov!(!on(m, A) || ch, "changed");
    cov!(!on(m, B) || !ch, "unchanged");
    done(a);
}
