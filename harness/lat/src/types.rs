//! `Lat`: how to build a fully symbolic value of a shipped lattice type and how to read it back
//! into the independent model of `model.rs`.

use lattices::collections::{ArrayMap, ArraySet, OptionMap, OptionSet, SingletonMap, SingletonSet};
use lattices::map_union::MapUnion;
use lattices::set_union::SetUnion;
use lattices::{Conflict, DomPair, Max, Min, Pair, Point, WithBot, WithTop};

use crate::cap::{CapMap, CapSet};
use crate::model::*;
use crate::sym::{Prim, any, assume};

pub trait Lat: Sized + Clone {
    type M: Model;
    fn sym() -> Self;
    fn model(&self) -> Self::M;
}

impl<T: Prim + Bounded> Lat for Max<T> {
    type M = MMax<T>;
    fn sym() -> Self {
        Max::new(any())
    }
    fn model(&self) -> MMax<T> {
        MMax(*self.as_reveal_ref())
    }
}
impl<T: Prim + Bounded> Lat for Min<T> {
    type M = MMin<T>;
    fn sym() -> Self {
        Min::new(any())
    }
    fn model(&self) -> MMin<T> {
        MMin(*self.as_reveal_ref())
    }
}
impl Lat for () {
    type M = MUnit;
    fn sym() -> Self {}
    fn model(&self) -> MUnit {
        MUnit
    }
}
impl<L: Lat> Lat for WithBot<L> {
    type M = MBot<L::M>;
    fn sym() -> Self {
        if any::<bool>() { WithBot::new(Some(L::sym())) } else { WithBot::new(None) }
    }
    fn model(&self) -> Self::M {
        MBot(self.as_reveal_ref().map(|x| x.model()))
    }
}
impl<L: Lat> Lat for WithTop<L> {
    type M = MTop<L::M>;
    fn sym() -> Self {
        if any::<bool>() { WithTop::new(Some(L::sym())) } else { WithTop::new(None) }
    }
    fn model(&self) -> Self::M {
        MTop(self.as_reveal_ref().map(|x| x.model()))
    }
}
impl<A: Lat, B: Lat> Lat for Pair<A, B> {
    type M = (A::M, B::M);
    fn sym() -> Self {
        Pair::new(A::sym(), B::sym())
    }
    fn model(&self) -> Self::M {
        (self.a.model(), self.b.model())
    }
}
impl<K: Lat, V: Lat> Lat for DomPair<K, V> {
    type M = MDom<K::M, V::M>;
    fn sym() -> Self {
        DomPair::new(K::sym(), V::sym())
    }
    fn model(&self) -> Self::M {
        let (k, v) = self.as_reveal_ref();
        MDom(k.model(), v.model())
    }
}
impl<T: Prim + Copy + Eq> Lat for Conflict<T> {
    type M = MConf<T>;
    fn sym() -> Self {
        if any::<bool>() { Conflict::new(Some(any())) } else { Conflict::new(None) }
    }
    fn model(&self) -> Self::M {
        MConf(self.as_reveal_ref().copied())
    }
}
/// Point lattice: only equal values may ever be merged, so as a lattice it is the one-element
/// lattice; the panic on unequal values is checked by its own harnesses.
impl Lat for Point<u8, ()> {
    type M = MUnit;
    fn sym() -> Self {
        Point::new(any())
    }
    fn model(&self) -> MUnit {
        MUnit
    }
}

// ------------------------------------------------------------------------------------------- sets
/// Model capacity for every set representation (so cross-representation laws share one model type).
pub const MS: usize = 8;

/// Number of symbolic elements a `CapSet<_, CAP>`-backed value gets: three such values must fit
/// into one receiver (associativity harness), so CAP/3.
impl<const CAP: usize> Lat for SetUnion<CapSet<u8, CAP>> {
    type M = MSet<MS>;
    fn sym() -> Self {
        let n: usize = any();
        assume(n <= CAP / 3);
        let mut s = CapSet::<u8, CAP>::default();
        let mut i = 0;
        while i < CAP / 3 {
            if i < n {
                let x: u8 = any();
                // representation invariant of a set: distinct elements
                assume(!s.has(&x));
                s.items[s.len] = Some(x);
                s.len += 1;
            }
            i += 1;
        }
        SetUnion::new(s)
    }
    fn model(&self) -> Self::M {
        let mut m = MSet::empty();
        let s = self.as_reveal_ref();
        let mut i = 0;
        while i < CAP {
            if i < s.len {
                m.add(s.items[i].unwrap());
            }
            i += 1;
        }
        m
    }
}
impl<const N: usize> Lat for SetUnion<ArraySet<u8, N>> {
    type M = MSet<MS>;
    fn sym() -> Self {
        let a: [u8; N] = core::array::from_fn(|_| any());
        // documented precondition: array-backed sets hold distinct items (len() is the slot count)
        let mut i = 0;
        while i < N {
            let mut j = 0;
            while j < i {
                assume(a[i] != a[j]);
                j += 1;
            }
            i += 1;
        }
        SetUnion::new(ArraySet(a))
    }
    fn model(&self) -> Self::M {
        MSet::from_iter(self.as_reveal_ref().0.iter())
    }
}
impl Lat for SetUnion<SingletonSet<u8>> {
    type M = MSet<MS>;
    fn sym() -> Self {
        SetUnion::new(SingletonSet(any()))
    }
    fn model(&self) -> Self::M {
        let mut m = MSet::empty();
        m.add(self.as_reveal_ref().0);
        m
    }
}
impl Lat for SetUnion<OptionSet<u8>> {
    type M = MSet<MS>;
    fn sym() -> Self {
        SetUnion::new(OptionSet(if any::<bool>() { Some(any()) } else { None }))
    }
    fn model(&self) -> Self::M {
        let mut m = MSet::empty();
        if let Some(x) = self.as_reveal_ref().0 {
            m.add(x);
        }
        m
    }
}

// ------------------------------------------------------------------------------------------- maps
pub const MM: usize = 6;

impl<V: Lat, const CAP: usize> Lat for MapUnion<CapMap<u8, V, CAP>> {
    type M = MMap<V::M, MM>;
    fn sym() -> Self {
        let n: usize = any();
        assume(n <= CAP / 3);
        let mut m = CapMap::<u8, V, CAP>::default();
        let mut i = 0;
        while i < CAP / 3 {
            if i < n {
                let k: u8 = any();
                assume(m.pos(&k).is_none());
                m.keys[m.len] = Some(k);
                m.vals[m.len] = Some(V::sym());
                m.len += 1;
            }
            i += 1;
        }
        MapUnion::new(m)
    }
    fn model(&self) -> Self::M {
        let mut r = MMap::empty();
        let m = self.as_reveal_ref();
        let mut i = 0;
        while i < CAP {
            if i < m.len {
                r.put(m.keys[i].unwrap(), m.vals[i].as_ref().unwrap().model());
            }
            i += 1;
        }
        r
    }
}
impl<V: Lat, const N: usize> Lat for MapUnion<ArrayMap<u8, V, N>> {
    type M = MMap<V::M, MM>;
    fn sym() -> Self {
        let keys: [u8; N] = core::array::from_fn(|_| any());
        let mut i = 0;
        while i < N {
            let mut j = 0;
            while j < i {
                assume(keys[i] != keys[j]);
                j += 1;
            }
            i += 1;
        }
        let vals: [V; N] = core::array::from_fn(|_| V::sym());
        MapUnion::new(ArrayMap { keys, vals })
    }
    fn model(&self) -> Self::M {
        let mut r = MMap::empty();
        let m = self.as_reveal_ref();
        let mut i = 0;
        while i < N {
            r.put(m.keys[i], m.vals[i].model());
            i += 1;
        }
        r
    }
}
impl<V: Lat> Lat for MapUnion<SingletonMap<u8, V>> {
    type M = MMap<V::M, MM>;
    fn sym() -> Self {
        MapUnion::new(SingletonMap(any(), V::sym()))
    }
    fn model(&self) -> Self::M {
        let mut r = MMap::empty();
        let m = self.as_reveal_ref();
        r.put(m.0, m.1.model());
        r
    }
}
impl<V: Lat> Lat for MapUnion<OptionMap<u8, V>> {
    type M = MMap<V::M, MM>;
    fn sym() -> Self {
        MapUnion::new(OptionMap(if any::<bool>() { Some((any(), V::sym())) } else { None }))
    }
    fn model(&self) -> Self::M {
        let mut r = MMap::empty();
        if let Some((k, v)) = &self.as_reveal_ref().0 {
            r.put(*k, v.model());
        }
        r
    }
}
