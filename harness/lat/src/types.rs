//! `Lat`: how to build a fully symbolic value of a shipped lattice type and how to read it back
//! into the independent model of `model.rs`.

use lattices::collections::{ArrayMap, ArraySet, OptionMap, OptionSet, SingletonMap, SingletonSet};
use lattices::map_union::MapUnion;
use lattices::set_union::SetUnion;
use lattices::{Conflict, DomPair, Max, Min, Pair, Point, WithBot, WithTop};

use crate::cap::{CapMap, CapSet};
use crate::model::*;
use crate::sym::{Prim, any, assume};

/// Reading a value back into the independent model.
pub trait HasModel: Sized + Clone {
    type M: Model;
    fn model(&self) -> Self::M;
}
/// Building a fully symbolic value (lengths included) — no-heap types only.
pub trait Lat: HasModel {
    fn sym() -> Self;
}

impl<T: Prim + Bounded> HasModel for Max<T> {
    type M = MMax<T>;
    fn model(&self) -> MMax<T> {
        MMax(*self.as_reveal_ref())
    }
}
impl<T: Prim + Bounded> Lat for Max<T> {
    fn sym() -> Self {
        Max::new(any())
    }
}
impl<T: Prim + Bounded> HasModel for Min<T> {
    type M = MMin<T>;
    fn model(&self) -> MMin<T> {
        MMin(*self.as_reveal_ref())
    }
}
impl<T: Prim + Bounded> Lat for Min<T> {
    fn sym() -> Self {
        Min::new(any())
    }
}
impl HasModel for () {
    type M = MUnit;
    fn model(&self) -> MUnit {
        MUnit
    }
}
impl Lat for () {
    fn sym() -> Self {}
}
impl<L: HasModel> HasModel for WithBot<L> {
    type M = MBot<L::M>;
    fn model(&self) -> Self::M {
        MBot(self.as_reveal_ref().map(|x| x.model()))
    }
}
impl<L: Lat> Lat for WithBot<L> {
    fn sym() -> Self {
        if any::<bool>() { WithBot::new(Some(L::sym())) } else { WithBot::new(None) }
    }
}
impl<L: HasModel> HasModel for WithTop<L> {
    type M = MTop<L::M>;
    fn model(&self) -> Self::M {
        MTop(self.as_reveal_ref().map(|x| x.model()))
    }
}
impl<L: Lat> Lat for WithTop<L> {
    fn sym() -> Self {
        if any::<bool>() { WithTop::new(Some(L::sym())) } else { WithTop::new(None) }
    }
}
impl<A: HasModel, B: HasModel> HasModel for Pair<A, B> {
    type M = (A::M, B::M);
    fn model(&self) -> Self::M {
        (self.a.model(), self.b.model())
    }
}
impl<A: Lat, B: Lat> Lat for Pair<A, B> {
    fn sym() -> Self {
        Pair::new(A::sym(), B::sym())
    }
}
impl<K: HasModel, V: HasModel> HasModel for DomPair<K, V> {
    type M = MDom<K::M, V::M>;
    fn model(&self) -> Self::M {
        let (k, v) = self.as_reveal_ref();
        MDom(k.model(), v.model())
    }
}
impl<K: Lat, V: Lat> Lat for DomPair<K, V> {
    fn sym() -> Self {
        DomPair::new(K::sym(), V::sym())
    }
}
impl<T: Prim + Copy + Eq> HasModel for Conflict<T> {
    type M = MConf<T>;
    fn model(&self) -> Self::M {
        MConf(self.as_reveal_ref().copied())
    }
}
impl<T: Prim + Copy + Eq> Lat for Conflict<T> {
    fn sym() -> Self {
        if any::<bool>() { Conflict::new(Some(any())) } else { Conflict::new(None) }
    }
}
/// Point lattice: only equal values may ever be merged, so as a lattice it is the one-element
/// lattice; the panic on unequal values is checked by its own harnesses.
impl HasModel for Point<u8, ()> {
    type M = MUnit;
    fn model(&self) -> MUnit {
        MUnit
    }
}
impl Lat for Point<u8, ()> {
    fn sym() -> Self {
        Point::new(any())
    }
}

// ------------------------------------------------------------------------------------------- sets
/// Model capacity for every set representation (so cross-representation laws share one model type).
pub const MS: usize = 6;

/// Number of symbolic elements a `CapSet<_, CAP>`-backed value gets: three such values must fit
/// into one receiver (associativity harness), so CAP/3.
impl<const CAP: usize> HasModel for SetUnion<CapSet<u8, CAP>> {
    type M = MSet<MS>;
    fn model(&self) -> Self::M {
        // the CapSet is duplicate-free by construction: plain copy
        let mut m = MSet::empty();
        let s = self.as_reveal_ref();
        let mut i = 0;
        while i < s.len {
            m.items[i] = s.items[i];
            i += 1;
        }
        assert!(s.len <= MS, "MSet capacity (harness sizing error)");
        m.len = s.len;
        m
    }
}
impl<const CAP: usize> Lat for SetUnion<CapSet<u8, CAP>> {
    fn sym() -> Self {
        let n: usize = any();
        assume(n <= CAP / 3);
        let mut s = CapSet::<u8, CAP>::default();
        let mut i = 0;
        while i < CAP / 3 {
            if i < n {
                let x: u8 = any();
                // representation invariant of a set: distinct elements
                assume(!s.has(&x));
                s.items[s.len] = x;
                s.len += 1;
            }
            i += 1;
        }
        SetUnion::new(s)
    }
}
impl<const N: usize> HasModel for SetUnion<ArraySet<u8, N>> {
    type M = MSet<MS>;
    fn model(&self) -> Self::M {
        MSet::from_iter(self.as_reveal_ref().0.iter())
    }
}
impl<const N: usize> Lat for SetUnion<ArraySet<u8, N>> {
    fn sym() -> Self {
        let a: [u8; N] = core::array::from_fn(|_| any());
        // documented precondition: array-backed sets hold distinct items (len() is the slot count)
        let mut i = 0;
        while i < N {
            let mut j = 0;
            while j < i {
                assume(a[i] != a[j]);
                j += 1;
            }
            i += 1;
        }
        SetUnion::new(ArraySet(a))
    }
}
impl HasModel for SetUnion<SingletonSet<u8>> {
    type M = MSet<MS>;
    fn model(&self) -> Self::M {
        let mut m = MSet::empty();
        m.add(self.as_reveal_ref().0);
        m
    }
}
impl Lat for SetUnion<SingletonSet<u8>> {
    fn sym() -> Self {
        SetUnion::new(SingletonSet(any()))
    }
}
impl HasModel for SetUnion<OptionSet<u8>> {
    type M = MSet<MS>;
    fn model(&self) -> Self::M {
        let mut m = MSet::empty();
        if let Some(x) = self.as_reveal_ref().0 {
            m.add(x);
        }
        m
    }
}
impl Lat for SetUnion<OptionSet<u8>> {
    fn sym() -> Self {
        SetUnion::new(OptionSet(if any::<bool>() { Some(any()) } else { None }))
    }
}

// ------------------------------------------------------------------------------------------- maps
pub const MM: usize = 4;

impl<V: HasModel, const CAP: usize> HasModel for MapUnion<CapMap<u8, V, CAP>> {
    type M = MMap<V::M, MM>;
    fn model(&self) -> Self::M {
        let mut r = MMap::empty();
        let m = self.as_reveal_ref();
        let mut i = 0;
        while i < m.len {
            r.put(m.keys[i].unwrap(), m.vals[i].as_ref().unwrap().model());
            i += 1;
        }
        r
    }
}
impl<V: Lat, const CAP: usize> Lat for MapUnion<CapMap<u8, V, CAP>> {
    fn sym() -> Self {
        let n: usize = any();
        assume(n <= CAP / 3);
        let mut m = CapMap::<u8, V, CAP>::default();
        let mut i = 0;
        while i < CAP / 3 {
            if i < n {
                let k: u8 = any();
                assume(m.pos(&k).is_none());
                m.keys[m.len] = Some(k);
                m.vals[m.len] = Some(V::sym());
                m.len += 1;
            }
            i += 1;
        }
        MapUnion::new(m)
    }
}
impl<V: HasModel, const N: usize> HasModel for MapUnion<ArrayMap<u8, V, N>> {
    type M = MMap<V::M, MM>;
    fn model(&self) -> Self::M {
        let mut r = MMap::empty();
        let m = self.as_reveal_ref();
        let mut i = 0;
        while i < N {
            r.put(m.keys[i], m.vals[i].model());
            i += 1;
        }
        r
    }
}
impl<V: Lat, const N: usize> Lat for MapUnion<ArrayMap<u8, V, N>> {
    fn sym() -> Self {
        let keys: [u8; N] = core::array::from_fn(|_| any());
        let mut i = 0;
        while i < N {
            let mut j = 0;
            while j < i {
                assume(keys[i] != keys[j]);
                j += 1;
            }
            i += 1;
        }
        let vals: [V; N] = core::array::from_fn(|_| V::sym());
        MapUnion::new(ArrayMap { keys, vals })
    }
}
impl<V: HasModel> HasModel for MapUnion<SingletonMap<u8, V>> {
    type M = MMap<V::M, MM>;
    fn model(&self) -> Self::M {
        let mut r = MMap::empty();
        let m = self.as_reveal_ref();
        r.put(m.0, m.1.model());
        r
    }
}
impl<V: Lat> Lat for MapUnion<SingletonMap<u8, V>> {
    fn sym() -> Self {
        MapUnion::new(SingletonMap(any(), V::sym()))
    }
}
impl<V: HasModel> HasModel for MapUnion<OptionMap<u8, V>> {
    type M = MMap<V::M, MM>;
    fn model(&self) -> Self::M {
        let mut r = MMap::empty();
        if let Some((k, v)) = &self.as_reveal_ref().0 {
            r.put(*k, v.model());
        }
        r
    }
}
impl<V: Lat> Lat for MapUnion<OptionMap<u8, V>> {
    fn sym() -> Self {
        MapUnion::new(OptionMap(if any::<bool>() { Some((any(), V::sym())) } else { None }))
    }
}

// ---------------------------------------------------------------------- concrete-length builders
/// `SetUnion<CapSet>` with exactly `n` distinct symbolic elements (length concrete, contents symbolic).
pub fn set_of<const CAP: usize>(n: usize) -> SetUnion<CapSet<u8, CAP>> {
    let mut s = CapSet::<u8, CAP>::default();
    let mut i = 0;
    while i < n {
        let x: u8 = any();
        assume(!s.has(&x));
        s.items[i] = x;
        s.len = i + 1;
        i += 1;
    }
    SetUnion::new(s)
}
/// `MapUnion<CapMap>` with exactly `n` distinct symbolic keys and symbolic values.
pub fn map_of<V: Lat, const CAP: usize>(n: usize) -> MapUnion<CapMap<u8, V, CAP>> {
    let mut m = CapMap::<u8, V, CAP>::default();
    let mut i = 0;
    while i < n {
        let k: u8 = any();
        assume(m.pos(&k).is_none());
        m.keys[i] = Some(k);
        m.vals[i] = Some(V::sym());
        m.len = i + 1;
        i += 1;
    }
    MapUnion::new(m)
}
/// `MapUnion<CapMap>` with the given concrete keys and symbolic values.
pub fn map_keys<V: Lat, const CAP: usize>(keys: &[u8]) -> MapUnion<CapMap<u8, V, CAP>> {
    let mut m = CapMap::<u8, V, CAP>::default();
    let mut i = 0;
    while i < keys.len() {
        m.keys[i] = Some(keys[i]);
        m.vals[i] = Some(V::sym());
        m.len = i + 1;
        i += 1;
    }
    MapUnion::new(m)
}

// ------------------------------------------------------------------ shape-concrete builders (maps)
pub type WbC = WithBot<Conflict<u8>>;
/// non-bottom map value with symbolic content (`Conflict` is never bottom)
pub fn wb_some() -> WbC {
    WithBot::new(Some(Conflict::<u8>::sym()))
}
/// bottom map value
pub fn wb_none() -> WbC {
    WithBot::new(None)
}
pub fn capmap_of<const CAP: usize>(ents: &[(u8, WbC)]) -> MapUnion<CapMap<u8, WbC, CAP>> {
    let mut m = CapMap::<u8, WbC, CAP>::default();
    let mut i = 0;
    while i < ents.len() {
        m.keys[i] = Some(ents[i].0);
        m.vals[i] = Some(ents[i].1);
        m.len = i + 1;
        i += 1;
    }
    MapUnion::new(m)
}
pub fn capmap_sets(ents: &[(u8, SetUnion<CapSet<u8, 4>>)]) -> MapUnion<CapMap<u8, SetUnion<CapSet<u8, 4>>, 4>> {
    let mut m = CapMap::<u8, SetUnion<CapSet<u8, 4>>, 4>::default();
    let mut i = 0;
    while i < ents.len() {
        m.keys[i] = Some(ents[i].0);
        m.vals[i] = Some(ents[i].1);
        m.len = i + 1;
        i += 1;
    }
    MapUnion::new(m)
}
pub fn btmap_of(ents: &[(u8, WbC)]) -> MapUnion<std::collections::BTreeMap<u8, WbC>> {
    let mut m = std::collections::BTreeMap::new();
    let mut i = 0;
    while i < ents.len() {
        m.insert(ents[i].0, ents[i].1);
        i += 1;
    }
    MapUnion::new(m)
}
/// `SetUnion<BTreeSet>` built by `n` inserts of distinct symbolic elements.
pub fn btset_of(n: usize) -> SetUnion<std::collections::BTreeSet<u8>> {
    let mut s = std::collections::BTreeSet::new();
    let mut prev: [u8; 4] = [0; 4];
    let mut i = 0;
    while i < n {
        let x: u8 = any();
        let mut j = 0;
        while j < i {
            assume(prev[j] != x);
            j += 1;
        }
        prev[i] = x;
        s.insert(x);
        i += 1;
    }
    SetUnion::new(s)
}
impl HasModel for SetUnion<std::collections::BTreeSet<u8>> {
    type M = MSet<MS>;
    fn model(&self) -> Self::M {
        MSet::from_iter(self.as_reveal_ref().iter())
    }
}
impl<V: HasModel> HasModel for MapUnion<std::collections::BTreeMap<u8, V>> {
    type M = MMap<V::M, MM>;
    fn model(&self) -> Self::M {
        let mut r = MMap::empty();
        for (k, v) in self.as_reveal_ref().iter() {
            r.put(*k, v.model());
        }
        r
    }
}
impl<V: HasModel> HasModel for MapUnion<lattices::collections::VecMap<u8, V>> {
    type M = MMap<V::M, MM>;
    fn model(&self) -> Self::M {
        let mut r = MMap::empty();
        let m = self.as_reveal_ref();
        let mut i = 0;
        while i < m.keys.len() {
            r.put(m.keys[i], m.vals[i].model());
            i += 1;
        }
        r
    }
}
