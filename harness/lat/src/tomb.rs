//! Tombstone lattices (C05, and C01–C04 for them): the real generic `Merge`/`PartialOrd`/`PartialEq`
//! of `SetUnionWithTombstones` / `MapUnionWithTombstones`, instantiated with harness-side no-heap
//! storage (`CapSet` live set / tombstone set implementing the public `TombstoneSet` trait) and with
//! `BTreeMap` live maps.
use std::collections::BTreeMap;

use lattices::Merge;
use lattices::cc_traits::Len;
use lattices::collections::{EmptyMap, EmptySet, SingletonMap, SingletonSet};
use lattices::map_union_with_tombstones::MapUnionWithTombstones;
use lattices::set_union_with_tombstones::SetUnionWithTombstones;
use lattices::tombstone::TombstoneSet;

use crate::cap::CapSet;
use crate::cov;
use crate::model::*;
use crate::sym::{any, assume};
use crate::types::{HasModel, MM, MS, WbC};

impl<const CAP: usize> TombstoneSet<u8> for CapSet<u8, CAP> {
    fn contains(&self, key: &u8) -> bool {
        self.has(key)
    }
    fn union_with(&mut self, other: &Self) -> usize {
        let old = self.len;
        let mut i = 0;
        while i < other.len {
            self.put(other.items[i]);
            i += 1;
        }
        old
    }
}

pub type Ts = CapSet<u8, 6>;
pub type Tss = SetUnionWithTombstones<Ts, Ts>;

/// state model: live set + tombstone set, live ∩ tomb = ∅
#[derive(Clone, Debug)]
pub struct MTomb<L> {
    pub live: L,
    pub tomb: MSet<MS>,
}
impl Model for MTomb<MSet<MS>> {
    fn join(&self, o: &Self) -> Self {
        let tomb = self.tomb.join(&o.tomb);
        let all = self.live.join(&o.live);
        let mut live = MSet::empty();
        let mut i = 0;
        while i < all.len {
            if !tomb.has(all.items[i]) {
                live.add(all.items[i]);
            }
            i += 1;
        }
        MTomb { live, tomb }
    }
    fn le(&self, o: &Self) -> bool {
        if !self.tomb.le(&o.tomb) {
            return false;
        }
        let mut i = 0;
        while i < self.live.len {
            let e = self.live.items[i];
            if !(o.tomb.has(e) || o.live.has(e)) {
                return false;
            }
            i += 1;
        }
        true
    }
    fn is_bot(&self) -> bool {
        self.live.len == 0 && self.tomb.len == 0
    }
    fn is_top(&self) -> bool {
        false
    }
}
fn mset_of<const CAP: usize>(s: &CapSet<u8, CAP>) -> MSet<MS> {
    let mut m = MSet::empty();
    let mut i = 0;
    while i < s.len {
        m.add(s.items[i]);
        i += 1;
    }
    m
}
impl HasModel for Tss {
    type M = MTomb<MSet<MS>>;
    fn model(&self) -> Self::M {
        let (l, t) = self.as_reveal_ref();
        MTomb { live: mset_of(l), tomb: mset_of(t) }
    }
}
/// `n` live and `m` tombstoned items, all distinct (representation invariant live ∩ tomb = ∅).
pub fn tss_of(n: usize, m: usize) -> Tss {
    let mut all = CapSet::<u8, 6>::default();
    let mut live = Ts::default();
    let mut tomb = Ts::default();
    let mut i = 0;
    while i < n + m {
        let x: u8 = any();
        assume(!all.has(&x));
        all.items[i] = x;
        all.len = i + 1;
        if i < n {
            live.items[i] = x;
            live.len = i + 1;
        } else {
            tomb.items[i - n] = x;
            tomb.len = i - n + 1;
        }
        i += 1;
    }
    Tss::new(live, tomb)
}

/// A *delta* whose live and tombstone parts overlap in `o` items (the crate's own tests build such
/// deltas through `as_reveal_mut`); the receiver of a merge always satisfies the invariant.
pub fn tss_overlap(n: usize, m: usize, o: usize) -> Tss {
    let mut t = tss_of(n, m);
    let mut i = 0;
    while i < o {
        let x = t.as_reveal_ref().0.items[i];
        t.as_reveal_mut().1.put(x);
        i += 1;
    }
    t
}

/// C05 inductive step (sets): from ANY state satisfying the invariant, merging ANY replica state gives
/// tomb' = tomb ∪ tomb₂, live' = (live ∪ live₂) ∖ tomb', nothing both live and tombstoned — checked at a
/// symbolic probe item `p`, i.e. for every item. This is an inductive invariant whose closed form is
/// "union of all inserts minus union of all tombstones", so histories of any length/order are covered.
pub fn c05_set_step<O>(x: Tss, y: O, y_live: MSet<MS>, y_tomb: MSet<MS>, m: u8)
where
    Tss: Merge<O>,
{
    let (l0, t0) = { let (l, t) = x.as_reveal_ref(); (mset_of(l), mset_of(t)) };
    let mut a = x;
    let ch = a.merge(y);
    let (l1, t1) = { let (l, t) = a.as_reveal_ref(); (mset_of(l), mset_of(t)) };
    let p: u8 = any();
    let tomb_after = t0.has(p) || y_tomb.has(p);
    let live_after = (l0.has(p) || y_live.has(p)) && !tomb_after;
    assert!(t1.has(p) == tomb_after, "C05 tombstones after merge != union of tombstones");
    assert!(l1.has(p) == live_after, "C05 live items after merge != (union of inserts) minus (union of tombstones)");
    assert!(!(l1.has(p) && t1.has(p)), "C05 an item is both live and tombstoned");
    assert!(!(t0.has(p) && l1.has(p)), "C05 a tombstoned item reappeared");
    // no duplicates inside the stores (len() is observable and drives the change flag)
    let (ls, ts) = a.as_reveal_ref();
    assert!(ls.len == l1.len && ts.len == t1.len, "C05 duplicate entries in live/tombstone store");
    let changed = !(l1.le(&l0) && l0.le(&l1) && t1.le(&t0));
    assert!(ch == changed, "C02 tombstone merge flag != (state changed)");
    cov!(m & 1 == 0 || (t0.has(p) && y_live.has(p)), "other replica still has a tombstoned item live");
    cov!(m & 2 == 0 || (l0.has(p) && y_tomb.has(p)), "incoming tombstone deletes a live item");
    cov!(m & 4 == 0 || (y_live.has(p) && y_tomb.has(p)), "delta carries an item both live and tombstoned");
}

/// C05 order independence (direct witness): s+a+b and s+b+a are observationally equal.
pub fn c05_set_orders(s: Tss, a: Tss, b: Tss) {
    let mut u = s.clone();
    u.merge(a.clone());
    u.merge(b.clone());
    let mut v = s;
    v.merge(b);
    v.merge(a);
    let p: u8 = any();
    let (ul, ut) = u.as_reveal_ref();
    let (vl, vt) = v.as_reveal_ref();
    assert!(ul.has(&p) == vl.has(&p), "C05 live contents depend on merge order");
    assert!(ut.has(&p) == vt.has(&p), "C05 tombstones depend on merge order");
    assert!(ul.len == vl.len && ut.len == vt.len, "C05 sizes depend on merge order");
    cov!(ul.has(&p), "probe live");
    cov!(ut.has(&p), "probe tombstoned");
}

// ------------------------------------------------------------------------------------------- maps
pub type Tk = CapSet<u8, 4>;
/// live map on the harness-side no-heap `CapMap` (BTreeMap iteration dominates CBMC time, DESIGN §2)
pub type Tms = MapUnionWithTombstones<crate::cap::CapMap<u8, WbC, 4>, Tk>;

impl Model for MTomb<MMap<MBot<MConf<u8>>, MM>> {
    fn join(&self, o: &Self) -> Self {
        let tomb = self.tomb.join(&o.tomb);
        let all = self.live.join(&o.live);
        let mut live = MMap::empty();
        let mut i = 0;
        while i < all.len {
            if !tomb.has(all.keys[i]) {
                if let Some(v) = &all.vals[i] {
                    live.put(all.keys[i], v.clone());
                }
            }
            i += 1;
        }
        MTomb { live, tomb }
    }
    fn le(&self, o: &Self) -> bool {
        if !self.tomb.le(&o.tomb) {
            return false;
        }
        let mut i = 0;
        while i < self.live.len {
            let k = self.live.keys[i];
            if let Some(v) = &self.live.vals[i] {
                if !v.is_bot() && !o.tomb.has(k) {
                    match o.live.at(k) {
                        Some(w) => {
                            if !v.le(w) {
                                return false;
                            }
                        }
                        None => return false,
                    }
                }
            }
            i += 1;
        }
        true
    }
    fn is_bot(&self) -> bool {
        self.live.is_bot() && self.tomb.len == 0
    }
    fn is_top(&self) -> bool {
        false
    }
}
impl HasModel for Tms {
    type M = MTomb<MMap<MBot<MConf<u8>>, MM>>;
    fn model(&self) -> Self::M {
        let (m, t) = self.as_reveal_ref();
        let mut live = MMap::empty();
        let mut i = 0;
        while i < m.len {
            live.put(m.keys[i].unwrap(), m.vals[i].as_ref().unwrap().model());
            i += 1;
        }
        MTomb { live, tomb: mset_of(t) }
    }
}
/// concrete keys: live entries (key, value) and tombstoned keys
pub fn tms_of(live: &[(u8, WbC)], tomb: &[u8]) -> Tms {
    let mut m = crate::cap::CapMap::<u8, WbC, 4>::default();
    let mut i = 0;
    while i < live.len() {
        m.keys[i] = Some(live[i].0);
        m.vals[i] = Some(live[i].1);
        m.len = i + 1;
        i += 1;
    }
    let mut t = Tk::default();
    let mut j = 0;
    while j < tomb.len() {
        t.items[j] = tomb[j];
        t.len = j + 1;
        j += 1;
    }
    Tms::new(m, t)
}

/// C05 inductive step (maps), probe key `p` over the concrete key domain {0,1,2}.
pub fn c05_map_step<O>(x: Tms, y: O, y_model: MTomb<MMap<MBot<MConf<u8>>, MM>>, m: u8)
where
    Tms: Merge<O>,
{
    let m0 = x.model();
    let mut a = x;
    let ch = a.merge(y);
    let m1 = a.model();
    let p: u8 = any();
    assume(p < 3);
    let tomb_after = m0.tomb.has(p) || y_model.tomb.has(p);
    assert!(m1.tomb.has(p) == tomb_after, "C05 map tombstones after merge != union of tombstones");
    let (am, _) = a.as_reveal_ref();
    assert!(!(tomb_after && am.pos(&p).is_some()), "C05 a tombstoned key is present in the live map");
    assert!(!(m0.tomb.has(p) && am.pos(&p).is_some()), "C05 a tombstoned key reappeared");
    // value at p = join of both sides unless tombstoned (bottom entries invisible)
    let want = m0.join(&y_model);
    match (m1.live.at(p), want.live.at(p)) {
        (None, None) => {}
        (Some(v), Some(w)) => assert!(v.eqv(w), "C05 live value at key != join of the replicas' values"),
        _ => assert!(false, "C05 live keys after merge != (union of keys) minus (union of tombstones)"),
    }
    assert!(ch == !m1.eqv(&m0), "C02 tombstone map merge flag != (state changed)");
    cov!(m & 1 == 0 || ch, "changed");
    cov!(m & 2 == 0 || !ch, "unchanged");
}
