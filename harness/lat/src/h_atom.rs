//! C06: atomization. Real `Atomize::atomize` impls (SetUnion, MapUnion, UnionFind, WithBot, WithTop, ()).
use std::collections::BTreeMap;

use lattices::map_union::MapUnion;
use lattices::set_union::SetUnion;
use lattices::{Atomize, IsBot, Merge, WithBot, WithTop};

use crate::cap::CapSet;
use crate::h_uf::Uf;
use crate::model::Model;
use crate::sym::{any, below};
use crate::types::{HasModel, Lat, set_of};
use crate::{cov, harness};

type S4 = SetUnion<CapSet<u8, 4>>;

/// atoms are non-bottom, there are none exactly for bottom, merging them into Default reforms the value
fn c06_on<T>(item: T, expect_atoms: bool)
where
    T: Atomize + Merge<T::Atom> + IsBot + Default + Clone + PartialEq + HasModel,
{
    let mut reformed = T::default();
    let mut n = 0usize;
    for atom in item.clone().atomize() {
        assert!(!atom.is_bot(), "C06 atomize returned a bottom atom");
        reformed.merge(atom);
        n += 1;
    }
    assert!((n == 0) == item.is_bot(), "C06 atomize is empty exactly for bottom: violated");
    assert!(reformed == item, "C06 merging the atoms into bottom does not reform the value (==)");
    assert!(reformed.model().eqv(&item.model()), "C06 merging the atoms into bottom does not reform the value (model)");
    cov!(!expect_atoms || n > 0, "has atoms");
    cov!(expect_atoms || n == 0, "no atoms");
}

harness!(c06_unit, 2, { c06_on((), false); });
harness!(c06_set_0, 4, { c06_on::<S4>(set_of::<4>(0), false); });
harness!(c06_set_1, 4, { c06_on::<S4>(set_of::<4>(1), true); });
harness!(c06_set_2, 5, { c06_on::<S4>(set_of::<4>(2), true); });
//@ tier=thorough
harness!(c06_set_3, 6, { c06_on::<S4>(set_of::<4>(3), true); });
harness!(c06_withbot_none, 4, { c06_on::<WithBot<S4>>(WithBot::new(None), false); });
// (WithBot::atomize = Option::into_iter().flat_map(atomize) behind a Box<dyn Iterator>: > 1 h in CBMC without
// `-Z restrict-vtable`, seconds with it — DESIGN §2)
harness!(c06_withbot_some_empty, 4, { c06_on::<WithBot<S4>>(WithBot::new(Some(set_of::<4>(0))), false); });
harness!(c06_withbot_some_2, 5, { c06_on::<WithBot<S4>>(WithBot::new(Some(set_of::<4>(2))), true); });
harness!(c06_withtop_none, 4, { c06_on::<WithTop<S4>>(WithTop::new(None), true); });
harness!(c06_withtop_some_empty, 4, { c06_on::<WithTop<S4>>(WithTop::new(Some(set_of::<4>(0))), false); });
harness!(c06_withtop_some_2, 5, { c06_on::<WithTop<S4>>(WithTop::new(Some(set_of::<4>(2))), true); });

// Live map on the harness-side no-heap CapMap (`BTreeMap::into_iter`, used by atomize, costs CBMC > 15 min even
// for an empty map). `MapUnion::atomize` boxes the whole map inside a `Box<dyn Iterator>`; CBMC reads a heap
// object byte-wise, so the cost grows with the capacity: capacities 4x4 exhaust 24 GB, 2x2 need 400 s / 15 GB
// (DESIGN §2). Merging the atoms back through `MapUnion::merge` (a `Vec` collect per atom) does not fit at
// all; instead the atoms are compared with the map's (key, item) pairs at a symbolic probe: an atom of
// `MapUnion<_, SetUnion<_>>` is BY TYPE a singleton map holding a singleton set, the join of singleton atoms
// is the union of their pairs (C04 decides the real merge of exactly these singleton deltas), so
// "pairs(atoms) == pairs(value)" is the reform clause.
type S2 = SetUnion<CapSet<u8, 2>>;
type MS<const C: usize> = MapUnion<crate::cap::CapMap<u8, S2, C>>;
fn map_sets<const C: usize>(ents: &[(u8, usize)]) -> MS<C> {
    let mut m = crate::cap::CapMap::<u8, S2, C>::default();
    let mut i = 0;
    while i < ents.len() {
        m.keys[i] = Some(ents[i].0);
        m.vals[i] = Some(set_of::<2>(ents[i].1));
        m.len = i + 1;
        i += 1;
    }
    MapUnion::new(m)
}
fn c06_map_pairs<const C: usize>(item: MS<C>, expect_atoms: bool) {
    let bot = item.is_bot();
    let orig = item.clone();
    let mut out = [(0u8, 0u8); 4];
    let mut n = 0usize;
    let mut it = item.atomize();
    while let Some(atom) = it.next() {
        assert!(!atom.is_bot(), "C06 atomize returned a bottom atom");
        let lattices::collections::SingletonMap(k, v) = atom.into_reveal();
        let lattices::collections::SingletonSet(x) = v.into_reveal();
        assert!(n < 4, "C06 atomize returned more atoms than the value has items");
        out[n] = (k, x);
        n += 1;
    }
    core::mem::forget(it);
    assert!((n == 0) == bot, "C06 atomize is empty exactly for bottom: violated");
    let (k, x): (u8, u8) = (any(), any());
    let mut found = false;
    let mut i = 0;
    while i < 4 {
        if i < n && out[i] == (k, x) {
            found = true;
        }
        i += 1;
    }
    let want = orig.as_reveal_ref().val(&k).is_some_and(|s| s.as_reveal_ref().has(&x));
    assert!(found == want, "C06 the atoms of a map are not exactly its (key, item) pairs");
    cov!(!expect_atoms || found, "probe hits an atom");
    cov!(expect_atoms || n == 0, "no atoms");
}
//@ heavy=1 tier=thorough mem=20
harness!(c06_map_empty, 5, { c06_map_pairs(map_sets::<1>(&[]), false); });
//@ heavy=1 tier=thorough mem=20
harness!(c06_map_one_key_bottom_value, 5, { c06_map_pairs(map_sets::<1>(&[(3, 0)]), false); });
// quick: map capacity 1 (160 s / 11 GB; capacity 2: 400 s / 15 GB)
//@ heavy=1 mem=16
harness!(c06_map_cap1_one_key_2, 5, { c06_map_pairs(map_sets::<1>(&[(3, 2)]), true); });
//@ heavy=1 tier=thorough mem=20
harness!(c06_map_one_key_2, 5, { c06_map_pairs(map_sets::<2>(&[(3, 2)]), true); });
//@ heavy=1 tier=thorough mem=20
harness!(c06_map_two_keys, 5, { c06_map_pairs(map_sets::<2>(&[(0, 1), (1, 1)]), true); });
//@ heavy=1 tier=thorough mem=20
harness!(c06_map_two_keys_one_bottom, 5, { c06_map_pairs(map_sets::<2>(&[(0, 0), (1, 2)]), true); });

// union-find values given by their parent entries (symbolic items/parents over 4 items, acyclic)
fn uf_entries(ents: &[(u8, u8)]) -> Uf {
    let mut m = crate::cap::CapMap::<u8, core::cell::Cell<u8>, 4>::default();
    let mut i = 0;
    while i < ents.len() {
        m.keys[i] = Some(ents[i].0);
        m.vals[i] = Some(core::cell::Cell::new(ents[i].1));
        m.len = i + 1;
        i += 1;
    }
    lattices::union_find::UnionFind::new(m)
}
fn c06_uf_on(uf: Uf, expect_atoms_possible: bool) {
    let bot = uf.is_bot();
    let mut reformed = Uf::default();
    let mut n = 0usize;
    for atom in uf.clone().atomize() {
        assert!(!atom.is_bot(), "C06 atomize returned a bottom atom");
        reformed.merge(atom);
        n += 1;
    }
    assert!((n == 0) == bot, "C06 atomize is empty exactly for bottom: violated");
    assert!(reformed.model().eqv(&uf.model()), "C06 merging the atoms into bottom does not reform the value (model)");
    cov!(!expect_atoms_possible || n > 0, "has atoms");
    cov!(n == 0, "no atoms");
}
harness!(c06_uf_one_entry, 6, {
    let (a, b) = (below(4), below(4));
    c06_uf_on(uf_entries(&[(a, b)]), true);
});
// (two symbolic parent entries: no verdict within 3600 s — not kept)
// (a union-find built by one symbolic `union` call, atomized, re-merged and compared with `==`: no verdict within
// 3600 s — not kept; `c06_uf_one_entry` decides the one-entry parent maps, which is every value one union can build)
