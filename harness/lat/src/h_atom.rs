//! C06: atomization. Real `Atomize::atomize` impls (SetUnion, MapUnion, UnionFind, WithBot, WithTop, ()).
use std::collections::BTreeMap;

use lattices::map_union::MapUnion;
use lattices::set_union::SetUnion;
use lattices::{Atomize, IsBot, Merge, WithBot, WithTop};

use crate::cap::CapSet;
use crate::h_uf::Uf;
use crate::model::Model;
use crate::sym::{any, below};
use crate::types::{HasModel, Lat, set_of};
use crate::{cov, harness};

type S4 = SetUnion<CapSet<u8, 4>>;

/// atoms are non-bottom, there are none exactly for bottom, merging them into Default reforms the value
fn c06_on<T>(item: T, expect_atoms: bool)
where
    T: Atomize + Merge<T::Atom> + IsBot + Default + Clone + PartialEq + HasModel,
{
    let mut reformed = T::default();
    let mut n = 0usize;
    for atom in item.clone().atomize() {
        assert!(!atom.is_bot(), "C06 atomize returned a bottom atom");
        reformed.merge(atom);
        n += 1;
    }
    assert!((n == 0) == item.is_bot(), "C06 atomize is empty exactly for bottom: violated");
    assert!(reformed == item, "C06 merging the atoms into bottom does not reform the value (==)");
    assert!(reformed.model().eqv(&item.model()), "C06 merging the atoms into bottom does not reform the value (model)");
    cov!(!expect_atoms || n > 0, "has atoms");
    cov!(expect_atoms || n == 0, "no atoms");
}

harness!(c06_unit, 2, { c06_on((), false); });
harness!(c06_set_0, 4, { c06_on::<S4>(set_of::<4>(0), false); });
harness!(c06_set_1, 4, { c06_on::<S4>(set_of::<4>(1), true); });
harness!(c06_set_2, 5, { c06_on::<S4>(set_of::<4>(2), true); });
//@ tier=thorough
harness!(c06_set_3, 6, { c06_on::<S4>(set_of::<4>(3), true); });
harness!(c06_withbot_none, 4, { c06_on::<WithBot<S4>>(WithBot::new(None), false); });
// (WithBot::atomize = Option::into_iter().flat_map(boxed atomize): minutes in CBMC since CapSet lost its niche)
//@ heavy=1 tier=thorough
harness!(c06_withbot_some_empty, 4, { c06_on::<WithBot<S4>>(WithBot::new(Some(set_of::<4>(0))), false); });
//@ heavy=1 tier=thorough
harness!(c06_withbot_some_2, 5, { c06_on::<WithBot<S4>>(WithBot::new(Some(set_of::<4>(2))), true); });
harness!(c06_withtop_none, 4, { c06_on::<WithTop<S4>>(WithTop::new(None), true); });
harness!(c06_withtop_some_empty, 4, { c06_on::<WithTop<S4>>(WithTop::new(Some(set_of::<4>(0))), false); });
harness!(c06_withtop_some_2, 5, { c06_on::<WithTop<S4>>(WithTop::new(Some(set_of::<4>(2))), true); });

// live map on the harness-side no-heap CapMap: `BTreeMap::into_iter` (used by atomize) costs CBMC > 15 min
// even for an empty map (DESIGN §2); the `Atomize for MapUnion` body executed is the repository's.
type MS = MapUnion<crate::cap::CapMap<u8, S4, 4>>;
fn map_sets(ents: &[(u8, usize)]) -> MS {
    let mut m = crate::cap::CapMap::<u8, S4, 4>::default();
    let mut i = 0;
    while i < ents.len() {
        m.keys[i] = Some(ents[i].0);
        m.vals[i] = Some(set_of::<4>(ents[i].1));
        m.len = i + 1;
        i += 1;
    }
    MapUnion::new(m)
}
//@ heavy=1 tier=thorough
harness!(c06_map_empty, 5, { c06_on::<MS>(map_sets(&[]), false); });
//@ heavy=1 tier=thorough
harness!(c06_map_one_key_bottom_value, 5, { c06_on::<MS>(map_sets(&[(3, 0)]), false); });
//@ heavy=1 tier=thorough
harness!(c06_map_one_key_2, 6, { c06_on::<MS>(map_sets(&[(3, 2)]), true); });
//@ heavy=1 tier=thorough
harness!(c06_map_two_keys, 6, { c06_on::<MS>(map_sets(&[(0, 1), (1, 1)]), true); });
//@ heavy=1 tier=thorough
harness!(c06_map_two_keys_one_bottom, 6, { c06_on::<MS>(map_sets(&[(0, 0), (1, 2)]), true); });

// union-find values given by their parent entries (symbolic items/parents over 4 items, acyclic)
fn uf_entries(ents: &[(u8, u8)]) -> Uf {
    let mut m = crate::cap::CapMap::<u8, core::cell::Cell<u8>, 4>::default();
    let mut i = 0;
    while i < ents.len() {
        m.keys[i] = Some(ents[i].0);
        m.vals[i] = Some(core::cell::Cell::new(ents[i].1));
        m.len = i + 1;
        i += 1;
    }
    lattices::union_find::UnionFind::new(m)
}
fn c06_uf_on(uf: Uf, expect_atoms_possible: bool) {
    let bot = uf.is_bot();
    let mut reformed = Uf::default();
    let mut n = 0usize;
    for atom in uf.clone().atomize() {
        assert!(!atom.is_bot(), "C06 atomize returned a bottom atom");
        reformed.merge(atom);
        n += 1;
    }
    assert!((n == 0) == bot, "C06 atomize is empty exactly for bottom: violated");
    assert!(reformed.model().eqv(&uf.model()), "C06 merging the atoms into bottom does not reform the value (model)");
    cov!(!expect_atoms_possible || n > 0, "has atoms");
    cov!(n == 0, "no atoms");
}
harness!(c06_uf_one_entry, 6, {
    let (a, b) = (below(4), below(4));
    c06_uf_on(uf_entries(&[(a, b)]), true);
});
//@ heavy=1 tier=thorough
harness!(c06_uf_two_entries, 7, {
    let (a, b, c, d) = (below(4), below(4), below(4), below(4));
    crate::sym::assume(a != c); // distinct keys
    crate::sym::assume(!(b == c && d == a)); // a forest, not a 2-cycle
    c06_uf_on(uf_entries(&[(a, b), (c, d)]), true);
});
// union-find reachable through the API (one symbolic union over 4 items), compared with `==` as well
//@ heavy=1 tier=thorough
harness!(c06_uf, 7, {
    let uf = Uf::sym();
    let nb = !uf.is_bot();
    let mut reformed = Uf::default();
    let mut n = 0usize;
    for atom in uf.clone().atomize() {
        assert!(!atom.is_bot(), "C06 atomize returned a bottom atom");
        reformed.merge(atom);
        n += 1;
    }
    assert!((n == 0) == uf.is_bot(), "C06 atomize is empty exactly for bottom: violated");
    assert!(reformed.model().eqv(&uf.model()), "C06 merging the atoms into bottom does not reform the value (model)");
    assert!(reformed == uf, "C06 merging the atoms into bottom does not reform the value (==)");
    cov!(nb && n > 0, "has atoms");
    cov!(n == 0, "no atoms");
});
