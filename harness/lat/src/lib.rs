//! Kani harnesses over the real `lattices` / `variadics` crates (path dependencies on /repo).
#![allow(clippy::all)]
#![allow(unused_imports, dead_code)]

#[path = "../../common/sym.rs"]
pub mod sym;

pub mod cap;
pub mod laws;
pub mod model;
pub mod types;

include!("mods.rs");
