//! `VecUnion` support: heap-backed, so lengths are concrete per harness (enumerated by the
//! generator, DESIGN rule 2) and elements are symbolic.
use lattices::VecUnion;

use crate::model::*;
use crate::types::{HasModel, Lat};

pub const MV: usize = 4;

impl<L: HasModel> HasModel for VecUnion<L> {
    type M = MVec<L::M, MV>;
    fn model(&self) -> Self::M {
        let v = self.as_reveal_ref();
        assert!(v.len() <= MV, "MVec capacity (harness sizing error)");
        let mut vals: [Option<L::M>; MV] = core::array::from_fn(|_| None);
        let mut i = 0;
        while i < MV {
            if i < v.len() {
                vals[i] = Some(v[i].model());
            }
            i += 1;
        }
        MVec { vals, len: v.len() }
    }
}

/// A `VecUnion` of concrete length `n` with symbolic elements.
pub fn vec_of<L: Lat>(n: usize) -> VecUnion<L> {
    let mut v = Vec::with_capacity(n);
    let mut i = 0;
    while i < n {
        v.push(L::sym());
        i += 1;
    }
    VecUnion::new(v)
}
