//! Union-find (C04 and C01–C03): the real `UnionFind::{union, same, find (path compression), merge,
//! partial_cmp, eq, is_bot}` on the no-heap `CapMap` (symbolic histories) and on `ArrayMap`
//! (arbitrary — possibly malformed — parent maps), against the partition model `MPart`.
use core::cell::Cell;

use lattices::collections::{ArrayMap, SingletonMap};
use lattices::union_find::UnionFind;
use lattices::{IsBot, Merge};

use crate::cap::CapMap;
use crate::model::*;
use crate::sym::{any, assume, below};
use crate::types::{HasModel, Lat};
use crate::{cov, harness, laws};

pub const D: usize = 4;
pub type Uf = UnionFind<CapMap<u8, Cell<u8>, D>>;

impl<const CAP: usize> HasModel for UnionFind<CapMap<u8, Cell<u8>, CAP>> {
    type M = MPart<D>;
    fn model(&self) -> MPart<D> {
        let mut p = MPart::discrete();
        let m = self.as_reveal_ref();
        let mut i = 0;
        while i < m.len {
            let a = m.keys[i].unwrap() as usize;
            let b = m.vals[i].as_ref().unwrap().get() as usize;
            assert!(a < D && b < D, "union-find item outside the harness domain");
            p.rel[a][b] = true;
            p.rel[b][a] = true;
            i += 1;
        }
        p.close();
        p
    }
}
/// A union-find reachable through the public API: `K` symbolic unions over the domain.
fn uf_sym<const K: usize>() -> (Uf, MPart<D>) {
    let mut uf = Uf::default();
    let mut m = MPart::discrete();
    let mut i = 0;
    while i < K {
        let a = below(D as u8);
        let b = below(D as u8);
        if any::<bool>() {
            let ch = uf.union(a, b).into_reveal();
            let was = m.same(a as usize, b as usize);
            assert!(ch == !was, "C02/C04 union(a,b) flag != (a,b were in different classes)");
            m.link(a as usize, b as usize);
        }
        i += 1;
    }
    (uf, m)
}
/// quick-tier values: one symbolic (optional) union; the `*_2` harnesses use two
impl Lat for Uf {
    fn sym() -> Self {
        uf_sym::<1>().0
    }
}

fn check_same_all(uf: &Uf, m: &MPart<D>) {
    // symbolic probe pair: one query covers all 16 pairs; `same` path-compresses through `Cell`s
    let a = below(D as u8);
    let b = below(D as u8);
    assert!(uf.same(a, b).into_reveal() == m.same(a as usize, b as usize), "C04 same(a,b) != equivalence closure of all unions");
    // ... and compression must not have changed the partition
    let c = below(D as u8);
    let d = below(D as u8);
    assert!(uf.same(c, d).into_reveal() == m.same(c as usize, d as usize), "C04 same(c,d) wrong after a compressing find");
}

// C04: after every step of a symbolic history of K unions, same() == closure, for every probe pair.
//@ heavy=1
harness!(c04_uf_history2, 6, {
    let (uf, m) = uf_sym::<2>();
    check_same_all(&uf, &m);
    cov!(!m.is_bot(), "non-trivial partition");
});
//@ tier=thorough heavy=1
harness!(c04_uf_history3, 7, {
    let (uf, m) = uf_sym::<3>();
    check_same_all(&uf, &m);
    cov!(m.same(0, 1) && m.same(1, 2) && m.same(2, 3), "all four items joined");
});
//@ tier=thorough heavy=1
harness!(c04_uf_history4, 7, {
    let (uf, m) = uf_sym::<4>();
    check_same_all(&uf, &m);
    cov!(m.same(0, 3) && !m.same(0, 1), "0~3 but not 0~1");
});

// C04: merge of a second union-find = closure of both edge sets; flag exact (C02).
//@ prop=C02,C04 heavy=1 tier=thorough
harness!(c04_uf_merge, 7, {
    let (mut x, mx) = uf_sym::<2>();
    let (y, my) = uf_sym::<1>();
    let ch = x.merge(y);
    let want = mx.join(&my);
    assert!(x.model().eqv(&want), "C04 union-find merge != join of partitions");
    assert!(ch == !want.eqv(&mx), "C02 union-find merge flag != (partition got coarser)");
    let a = below(D as u8);
    let b = below(D as u8);
    assert!(x.same(a, b).into_reveal() == want.same(a as usize, b as usize), "C04 same() after merge != join of partitions");
    cov!(ch, "changed");
    cov!(!ch, "unchanged");
});
//@ prop=C02,C04 heavy=1 tier=thorough
harness!(c04_uf_merge_singleton, 7, {
    let (mut x, mx) = uf_sym::<2>();
    let a = below(D as u8);
    let b = below(D as u8);
    let delta = UnionFind::<SingletonMap<u8, Cell<u8>>>::new(SingletonMap(a, Cell::new(b)));
    let ch = x.merge(delta);
    let mut want = mx;
    want.link(a as usize, b as usize);
    assert!(x.model().eqv(&want), "C04 union-find merge(singleton) != join of partitions");
    assert!(ch == !want.eqv(&mx), "C02 union-find merge(singleton) flag wrong");
    cov!(ch, "changed");
    cov!(!ch, "unchanged");
});

//@ prop=C02,C04 heavy=1
harness!(c04_uf_merge_small, 6, {
    let (mut x, mx) = uf_sym::<1>();
    let a = below(D as u8);
    let b = below(D as u8);
    let delta = UnionFind::<SingletonMap<u8, Cell<u8>>>::new(SingletonMap(a, Cell::new(b)));
    let ch = x.merge(delta);
    let mut want = mx;
    want.link(a as usize, b as usize);
    assert!(x.model().eqv(&want), "C04 union-find merge(singleton) != join of partitions");
    assert!(ch == !want.eqv(&mx), "C02 union-find merge(singleton) flag wrong");
    let (p, q) = (below(D as u8), below(D as u8));
    assert!(x.same(p, q).into_reveal() == want.same(p as usize, q as usize), "C04 same() after merge != join of partitions");
    cov!(ch, "changed");
    cov!(!ch, "unchanged");
});

// a delta with TWO entries (no heap: ArrayMap) merged into a receiver holding one symbolic union: the
// links of one merge must not invalidate each other (roots change while the delta is applied)
//@ prop=C02,C04 heavy=1 mem=16
harness!(c04_uf_merge_array2, 7, {
    let (mut x, mx) = uf_sym::<1>();
    let (a, b, c, d) = (below(D as u8), below(D as u8), below(D as u8), below(D as u8));
    assume(a != c); // distinct keys in the delta
    let delta = UnionFind::<ArrayMap<u8, Cell<u8>, 2>>::new(ArrayMap { keys: [a, c], vals: [Cell::new(b), Cell::new(d)] });
    let ch = x.merge(delta);
    let mut want = mx;
    want.link(a as usize, b as usize);
    want.link(c as usize, d as usize);
    assert!(x.model().eqv(&want), "C04 union-find merge(two-entry delta) != join of partitions");
    assert!(ch == !want.eqv(&mx), "C02 union-find merge(two-entry delta) flag wrong");
    let (p, q) = (below(D as u8), below(D as u8));
    assert!(x.same(p, q).into_reveal() == want.same(p as usize, q as usize), "C04 same() after merge != join of partitions");
    cov!(ch, "changed");
    cov!(!ch, "unchanged");
});

// C01/C02/C03 for union-find values reachable through the API (2 symbolic unions each)
//@ heavy=1 tier=thorough
harness!(c01i_uf, 6, { laws::c01i::<Uf>(0); });
//@ heavy=1 tier=thorough
harness!(c01c_uf, 7, { laws::c01c::<Uf>(3); });
//@ tier=thorough heavy=1
harness!(c01a_uf, 7, { laws::c01a::<Uf>(3); });
//@ heavy=1 tier=thorough
harness!(c02_uf, 7, { laws::c02::<Uf>(3); });
//@ heavy=1 tier=thorough
harness!(c03m_uf, 7, {
    let x = Uf::sym();
    let y = Uf::sym();
    let (mx, my) = (x.model(), y.model());
    let mc = mx.cmp(&my);
    assert!(x.partial_cmp(&y) == mc, "C03 partial_cmp != model order");
    assert!((x == y) == (mc == Some(core::cmp::Ordering::Equal)), "C03 eq != model equivalence");
    assert!(x.is_bot() == mx.is_bot(), "C03 is_bot != discrete partition");
    cov!(mc.is_none(), "incomparable");
    cov!(mc == Some(core::cmp::Ordering::Less), "less");
});
harness!(c03_default_uf, 6, {
    let d = Uf::default();
    assert!(d.is_bot(), "C03 default is not is_bot");
    cov!(true, "reached end");
});

// C04, malformed parent maps: `UnionFind::new` accepts any map (the crate's own test feeds a cycle on
// purpose). Arbitrary parents over 3 keys; `same` must terminate and equal the closure of the edges.
// The unwinding bound 2*|keys|+2 = 8 is an upper bound for any terminating walk, so an unwinding
// assertion failure here IS the violation (confirmed natively: the replay must hang).
//@ nonterm=violation enum_tape=3x5
harness!(c04_uf_malformed3, 8, {
    let p: [u8; 3] = [below(3), below(3), below(3)];
    let uf = UnionFind::<ArrayMap<u8, Cell<u8>, 3>>::new(ArrayMap { keys: [0, 1, 2], vals: [Cell::new(p[0]), Cell::new(p[1]), Cell::new(p[2])] });
    let mut m = MPart::<3>::discrete();
    m.link(0, p[0] as usize);
    m.link(1, p[1] as usize);
    m.link(2, p[2] as usize);
    let a = below(3);
    let b = below(3);
    assert!(uf.same(a, b).into_reveal() == m.same(a as usize, b as usize), "C04 same(a,b) on an arbitrary parent map != closure of its edges");
    cov!(p[0] == 1 && p[1] == 0 && p[2] == 0, "rho-shaped map reached");
});
