//! Trusted-base validation: the harness-side `CapSet` / `CapMap` behave as a set / map (their
//! one-line specifications), so that what the lattice harnesses conclude is about the repository's
//! generic code and not about a broken type parameter.
use lattices::cc_traits::{Get, GetMut, Iter, Len, MapInsert, MapIter, Remove};

use crate::cap::{CapMap, CapSet};
use crate::sym::any;
use crate::{cov, harness};

//@ prop=C01,C02,C03,C04,C05,C06,C07
harness!(cap_set_semantics, 6, {
    let (x, y, z, p): (u8, u8, u8, u8) = (any(), any(), any(), any());
    let mut s = CapSet::<u8, 4>::default();
    let nx = s.put(x);
    let ny = s.put(y);
    assert!(nx && ny == (y != x), "CapSet::put reports novelty");
    s.extend([z]);
    assert!(s.has(&p) == (p == x || p == y || p == z), "CapSet membership == inserted elements");
    let distinct = 1 + (y != x) as usize + (z != x && z != y) as usize;
    assert!(Len::len(&s) == distinct && s.iter().count() == distinct, "CapSet len == number of distinct elements");
    assert!(Get::get(&s, &p).is_some() == s.has(&p), "CapSet get agrees with has");
    let removed = s.take(&y);
    assert!(removed == Some(y) && !s.has(&y), "CapSet remove");
    assert!(s.has(&p) == (p != y && (p == x || p == z)), "CapSet membership after remove");
    assert!(Len::len(&s) == distinct - 1, "CapSet len after remove");
    cov!(x == z && x != y, "duplicate insert");
});
//@ prop=C01,C02,C03,C04,C05,C06,C07
harness!(cap_map_semantics, 6, {
    let (k1, k2, p): (u8, u8, u8) = (any(), any(), any());
    let (v1, v2, v3): (u16, u16, u16) = (any(), any(), any());
    let mut m = CapMap::<u8, u16, 4>::default();
    assert!(MapInsert::insert(&mut m, k1, v1).is_none(), "CapMap insert new");
    let old = MapInsert::insert(&mut m, k2, v2);
    assert!(old == if k2 == k1 { Some(v1) } else { None }, "CapMap insert returns the previous value");
    let want = if p == k2 { Some(v2) } else if p == k1 { Some(v1) } else { None };
    assert!(Get::get(&m, &p).copied() == want, "CapMap get == last value inserted under the key");
    assert!(Len::len(&m) == 1 + (k1 != k2) as usize && MapIter::iter(&m).count() == Len::len(&m), "CapMap len == number of distinct keys");
    if let Some(v) = GetMut::get_mut(&mut m, &k1) {
        *v = v3;
    }
    assert!(Get::get(&m, &k1).copied() == Some(v3), "CapMap get_mut writes through");
    let r = Remove::remove(&mut m, &k2);
    assert!(r.is_some() && Get::get(&m, &k2).is_none(), "CapMap remove");
    assert!(Len::len(&m) == (k1 != k2) as usize, "CapMap len after remove");
    m.extend([(k1, v1), (k2, v2)]);
    assert!(Get::get(&m, &k2).copied() == Some(v2), "CapMap extend");
    cov!(k1 == k2, "key collision");
    cov!(k1 != k2, "distinct keys");
});
