//! C09: the law checkers of `lattices::algebra` return Ok exactly when the law holds on every tuple of
//! the carrier. Carrier {0,1,2}; the operations are SYMBOLIC lookup tables (3^9 binary operations per
//! query, times 3^3 unary ones, times all choices of distinguished elements), the reference is a plain
//! nested loop written from the textbook statement of each law.
use lattices::algebra;

use crate::sym::{any, assume, below};
use crate::{cov, harness};

const N: usize = 3;
const ITEMS: [u8; N] = [0, 1, 2];
type Tab = [[u8; N]; N];
type Un = [u8; N];

fn tab() -> Tab {
    let mut t = [[0u8; N]; N];
    let mut i = 0;
    while i < N {
        let mut j = 0;
        while j < N {
            t[i][j] = below(N as u8);
            j += 1;
        }
        i += 1;
    }
    t
}
fn un() -> Un {
    [below(N as u8), below(N as u8), below(N as u8)]
}
#[inline(always)]
fn ap(t: &Tab, a: u8, b: u8) -> u8 {
    t[a as usize][b as usize]
}

// ---------------------------------------------------------------- reference statements of the laws
fn r_assoc(f: &Tab) -> bool {
    let mut ok = true;
    let mut a = 0;
    while a < N as u8 {
        let mut b = 0;
        while b < N as u8 {
            let mut c = 0;
            while c < N as u8 {
                if ap(f, a, ap(f, b, c)) != ap(f, ap(f, a, b), c) {
                    ok = false;
                }
                c += 1;
            }
            b += 1;
        }
        a += 1;
    }
    ok
}
fn r_comm(f: &Tab) -> bool {
    let mut ok = true;
    let mut a = 0;
    while a < N as u8 {
        let mut b = 0;
        while b < N as u8 {
            if ap(f, a, b) != ap(f, b, a) {
                ok = false;
            }
            b += 1;
        }
        a += 1;
    }
    ok
}
fn r_idem(f: &Tab) -> bool {
    ap(f, 0, 0) == 0 && ap(f, 1, 1) == 1 && ap(f, 2, 2) == 2
}
fn r_ident(f: &Tab, e: u8) -> bool {
    let mut ok = true;
    let mut a = 0;
    while a < N as u8 {
        if ap(f, e, a) != a || ap(f, a, e) != a {
            ok = false;
        }
        a += 1;
    }
    ok
}
fn r_absorb(f: &Tab, z: u8) -> bool {
    let mut ok = true;
    let mut a = 0;
    while a < N as u8 {
        if ap(f, z, a) != z || ap(f, a, z) != z {
            ok = false;
        }
        a += 1;
    }
    ok
}
fn r_inverse(f: &Tab, e: u8, inv: &Un) -> bool {
    let mut ok = true;
    let mut a = 0;
    while a < N as u8 {
        if ap(f, a, inv[a as usize]) != e || ap(f, inv[a as usize], a) != e {
            ok = false;
        }
        a += 1;
    }
    ok
}
fn r_nz_inverse(f: &Tab, e: u8, zero: u8, inv: &Un) -> bool {
    let mut ok = true;
    let mut a = 0;
    while a < N as u8 {
        if a != zero && (ap(f, a, inv[a as usize]) != e || ap(f, inv[a as usize], a) != e) {
            ok = false;
        }
        a += 1;
    }
    ok
}
fn r_ldist(f: &Tab, g: &Tab) -> bool {
    let mut ok = true;
    let mut a = 0;
    while a < N as u8 {
        let mut b = 0;
        while b < N as u8 {
            let mut c = 0;
            while c < N as u8 {
                if ap(g, a, ap(f, b, c)) != ap(f, ap(g, a, b), ap(g, a, c)) {
                    ok = false;
                }
                c += 1;
            }
            b += 1;
        }
        a += 1;
    }
    ok
}
fn r_rdist(f: &Tab, g: &Tab) -> bool {
    let mut ok = true;
    let mut a = 0;
    while a < N as u8 {
        let mut b = 0;
        while b < N as u8 {
            let mut c = 0;
            while c < N as u8 {
                if ap(g, ap(f, b, c), a) != ap(f, ap(g, b, a), ap(g, c, a)) {
                    ok = false;
                }
                c += 1;
            }
            b += 1;
        }
        a += 1;
    }
    ok
}
fn r_no_zero_div(g: &Tab, zero: u8) -> bool {
    let mut ok = true;
    let mut a = 0;
    while a < N as u8 {
        let mut b = 0;
        while b < N as u8 {
            if a != zero && b != zero && ap(g, a, b) == zero {
                ok = false;
            }
            b += 1;
        }
        a += 1;
    }
    ok
}

// ---------------------------------------------------------------- single-operation checkers
harness!(c09_associativity, 30, {
    let f = tab();
    let got = algebra::associativity(&ITEMS, |a, b| ap(&f, a, b)).is_ok();
    assert!(got == r_assoc(&f), "C09 associativity checker != law");
    cov!(got, "holds");
    cov!(!got, "fails");
});
harness!(c09_commutativity, 12, {
    let f = tab();
    let got = algebra::commutativity(&ITEMS, |a, b| ap(&f, a, b)).is_ok();
    assert!(got == r_comm(&f), "C09 commutativity checker != law");
    cov!(got, "holds");
    cov!(!got, "fails");
});
harness!(c09_idempotency, 6, {
    let f = tab();
    let got = algebra::idempotency(&ITEMS, |a, b| ap(&f, a, b)).is_ok();
    assert!(got == r_idem(&f), "C09 idempotency checker != law");
    cov!(got, "holds");
    cov!(!got, "fails");
});
harness!(c09_identity, 6, {
    let f = tab();
    let e = below(N as u8);
    let got = algebra::identity(&ITEMS, |a, b| ap(&f, a, b), e).is_ok();
    assert!(got == r_ident(&f, e), "C09 identity checker != law");
    cov!(got, "holds");
    cov!(!got, "fails");
});
harness!(c09_absorbing_element, 6, {
    let f = tab();
    let z = below(N as u8);
    let got = algebra::absorbing_element(&ITEMS, |a, b| ap(&f, a, b), z).is_ok();
    assert!(got == r_absorb(&f, z), "C09 absorbing_element checker != law");
    cov!(got, "holds");
    cov!(!got, "fails");
});
harness!(c09_inverse, 6, {
    let f = tab();
    let e = below(N as u8);
    let inv = un();
    let got = algebra::inverse(&ITEMS, |a, b| ap(&f, a, b), e, |a| inv[a as usize]).is_ok();
    assert!(got == r_inverse(&f, e, &inv), "C09 inverse checker != law");
    cov!(got, "holds");
    cov!(!got, "fails");
});
harness!(c09_nonzero_inverse, 6, {
    let f = tab();
    let e = below(N as u8);
    let zero = below(N as u8);
    let inv = un();
    let got = algebra::nonzero_inverse(&ITEMS, |a, b| ap(&f, a, b), e, zero, |a| inv[a as usize]).is_ok();
    assert!(got == r_nz_inverse(&f, e, zero, &inv), "C09 nonzero_inverse checker != law");
    cov!(got, "holds");
    cov!(!got, "fails");
});
harness!(c09_no_nonzero_zero_divisors, 6, {
    let g = tab();
    let zero = below(N as u8);
    let got = algebra::no_nonzero_zero_divisors(&ITEMS, &|a, b| ap(&g, a, b), zero).is_ok();
    assert!(got == r_no_zero_div(&g, zero), "C09 no_nonzero_zero_divisors checker != law");
    cov!(got, "holds");
    cov!(!got, "fails");
});

// ---------------------------------------------------------------- two-operation checkers
harness!(c09_left_distributes, 30, {
    let f = tab();
    let g = tab();
    let got = algebra::left_distributes(&ITEMS, |a, b| ap(&f, a, b), |a, b| ap(&g, a, b)).is_ok();
    assert!(got == r_ldist(&f, &g), "C09 left_distributes checker != law");
    cov!(got, "holds");
    cov!(!got, "fails");
});
harness!(c09_right_distributes, 30, {
    let f = tab();
    let g = tab();
    let got = algebra::right_distributes(&ITEMS, |a, b| ap(&f, a, b), |a, b| ap(&g, a, b)).is_ok();
    assert!(got == r_rdist(&f, &g), "C09 right_distributes checker != law");
    cov!(got, "holds");
    cov!(!got, "fails");
});
harness!(c09_distributive, 30, {
    let f = tab();
    let g = tab();
    let got = algebra::distributive(&ITEMS, &|a, b| ap(&f, a, b), &|a, b| ap(&g, a, b)).is_ok();
    assert!(got == (r_ldist(&f, &g) && r_rdist(&f, &g)), "C09 distributive checker != (left and right distributivity)");
    cov!(got, "holds");
    cov!(!got, "fails");
});

// ---------------------------------------------------------------- composite structures
harness!(c09_semigroup_monoid, 30, {
    let f = tab();
    let e = below(N as u8);
    let sg = algebra::semigroup(&ITEMS, &|a, b| ap(&f, a, b)).is_ok();
    let mo = algebra::monoid(&ITEMS, &|a, b| ap(&f, a, b), e).is_ok();
    let cm = algebra::commutative_monoid(&ITEMS, &|a, b| ap(&f, a, b), e).is_ok();
    assert!(sg == r_assoc(&f), "C09 semigroup != associativity");
    assert!(mo == (r_assoc(&f) && r_ident(&f, e)), "C09 monoid != associativity + identity");
    assert!(cm == (r_assoc(&f) && r_ident(&f, e) && r_comm(&f)), "C09 commutative_monoid != monoid + commutativity");
    cov!(cm, "commutative monoid exists");
    cov!(mo && !cm, "non-commutative monoid exists");
    cov!(sg && !mo, "semigroup without that identity exists");
});
harness!(c09_group, 30, {
    let f = tab();
    let e = below(N as u8);
    let inv = un();
    let gr = algebra::group(&ITEMS, &|a, b| ap(&f, a, b), e, &|a| inv[a as usize]).is_ok();
    let ab = algebra::abelian_group(&ITEMS, &|a, b| ap(&f, a, b), e, &|a| inv[a as usize]).is_ok();
    let want = r_assoc(&f) && r_ident(&f, e) && r_inverse(&f, e, &inv);
    assert!(gr == want, "C09 group != monoid + inverse");
    assert!(ab == (want && r_comm(&f)), "C09 abelian_group != group + commutativity");
    cov!(ab, "Z3 found");
    cov!(!gr, "non-group");
});
fn r_semiring(f: &Tab, g: &Tab, zero: u8, one: u8) -> bool {
    r_assoc(f) && r_ident(f, zero) && r_comm(f) && r_assoc(g) && r_ident(g, one) && r_absorb(g, zero) && r_ldist(f, g) && r_rdist(f, g)
}
//@ heavy=1
harness!(c09_semiring, 30, {
    let f = tab();
    let g = tab();
    let zero = below(N as u8);
    let one = below(N as u8);
    let got = algebra::semiring(&ITEMS, &|a, b| ap(&f, a, b), &|a, b| ap(&g, a, b), zero, one).is_ok();
    assert!(got == r_semiring(&f, &g, zero, one), "C09 semiring != commutative monoid(+) + monoid(*) + absorbing zero + distributivity");
    cov!(got, "a semiring on 3 elements");
    cov!(!got, "not a semiring");
});
//@ heavy=1 tier=thorough
harness!(c09_ring, 30, {
    let f = tab();
    let g = tab();
    let zero = below(N as u8);
    let one = below(N as u8);
    let neg = un();
    let sr = r_semiring(&f, &g, zero, one);
    let ring = algebra::ring(&ITEMS, &|a, b| ap(&f, a, b), &|a, b| ap(&g, a, b), zero, one, &|a| neg[a as usize]).is_ok();
    assert!(ring == (sr && r_inverse(&f, zero, &neg)), "C09 ring != semiring + additive inverse");
    cov!(ring, "a ring on 3 elements");
    cov!(sr && !ring, "semiring that is not a ring with this negation");
});
//@ heavy=1 tier=thorough
harness!(c09_commutative_ring, 30, {
    let f = tab();
    let g = tab();
    let zero = below(N as u8);
    let one = below(N as u8);
    let neg = un();
    let sr = r_semiring(&f, &g, zero, one);
    let cring = algebra::commutative_ring(&ITEMS, &|a, b| ap(&f, a, b), &|a, b| ap(&g, a, b), zero, one, &|a| neg[a as usize]).is_ok();
    assert!(cring == (sr && r_inverse(&f, zero, &neg) && r_comm(&g)), "C09 commutative_ring != ring + commutative multiplication");
    cov!(cring, "a commutative ring");
    cov!(!cring, "not one");
});
//@ heavy=1 tier=thorough
harness!(c09_integral_domain, 30, {
    let f = tab();
    let g = tab();
    let zero = below(N as u8);
    let one = below(N as u8);
    let neg = un();
    let sr = r_semiring(&f, &g, zero, one);
    let idom = algebra::integral_domain(&ITEMS, &|a, b| ap(&f, a, b), &|a, b| ap(&g, a, b), zero, one, &|a| neg[a as usize]).is_ok();
    assert!(idom == (sr && r_inverse(&f, zero, &neg) && r_comm(&g) && r_no_zero_div(&g, zero)), "C09 integral_domain != commutative ring without zero divisors");
    cov!(idom, "an integral domain");
    cov!(!idom, "not one");
});
//@ heavy=1 tier=thorough
harness!(c09_field, 30, {
    let f = tab();
    let g = tab();
    let zero = below(N as u8);
    let one = below(N as u8);
    let neg = un();
    let rinv = un();
    let sr = r_semiring(&f, &g, zero, one);
    let field = algebra::field(&ITEMS, &|a, b| ap(&f, a, b), &|a, b| ap(&g, a, b), zero, one, &|a| neg[a as usize], &|a| rinv[a as usize]).is_ok();
    assert!(field == (sr && r_inverse(&f, zero, &neg) && r_comm(&g) && r_nz_inverse(&g, one, zero, &rinv)), "C09 field != commutative ring + multiplicative inverses of non-zero elements");
    cov!(field, "GF(3) found");
    cov!(!field, "not a field");
});

// ---------------------------------------------------------------- linearity / bilinearity (carrier {0,1})
const M2: usize = 2;
type Tab2 = [[u8; M2]; M2];
fn tab2() -> Tab2 {
    [[below(2), below(2)], [below(2), below(2)]]
}
harness!(c09_linearity, 8, {
    let f = tab2();
    let g = tab2();
    let q: [u8; M2] = [below(2), below(2)];
    let items: [u8; M2] = [0, 1];
    let got = algebra::linearity(&items, |a, b| f[a as usize][b as usize], |a, b| g[a as usize][b as usize], |a| q[a as usize]).is_ok();
    // q(f(a,b)) == g(q(a), q(b)) for all a, b
    let mut want = true;
    let mut a = 0;
    while a < 2u8 {
        let mut b = 0;
        while b < 2u8 {
            if q[f[a as usize][b as usize] as usize] != g[q[a as usize] as usize][q[b as usize] as usize] {
                want = false;
            }
            b += 1;
        }
        a += 1;
    }
    assert!(got == want, "C09 linearity checker != law q(f(a,b)) = g(q(a),q(b))");
    cov!(got, "holds");
    cov!(!got, "fails");
});
harness!(c09_bilinearity, 8, {
    let f = tab2();
    let h = tab2();
    let g = tab2();
    let q = tab2();
    let items: [u8; M2] = [0, 1];
    let got = algebra::bilinearity(&items, &items, |a, b| f[a as usize][b as usize], |a, b| h[a as usize][b as usize], |a, b| g[a as usize][b as usize], |a, c| q[a as usize][c as usize]).is_ok();
    let mut want = true;
    let mut a = 0;
    while a < 2usize {
        let mut b = 0;
        while b < 2usize {
            let mut c = 0;
            while c < 2usize {
                let mut d = 0;
                while d < 2usize {
                    // q(a+b, c) = q(a,c) + q(b,c)  and  q(a, c+d) = q(a,c) + q(a,d)
                    if q[f[a][b] as usize][c] != g[q[a][c] as usize][q[b][c] as usize] {
                        want = false;
                    }
                    if q[a][h[c][d] as usize] != g[q[a][c] as usize][q[a][d] as usize] {
                        want = false;
                    }
                    d += 1;
                }
                c += 1;
            }
            b += 1;
        }
        a += 1;
    }
    assert!(got == want, "C09 bilinearity checker != law");
    cov!(got, "holds");
    cov!(!got, "fails");
});

// get_single_function_properties is NOT encoded: it pushes up to six names into a `Vec` under symbolic
// conditions; CBMC runs out of memory on the path-dependent heap growth even over the carrier {0,1}
// (DESIGN §2). Its six constituent checkers are each decided above; the wrapper is outside the claim.
