//! `Point`: merging equal values is a no-op; merging or comparing unequal values panics (documented).
use lattices::{IsBot, IsTop, Merge, Point};

use crate::sym::{any, assume};
use crate::{cov, harness};

type P = Point<u8, ()>;

//@ prop=C01,C02,C03,C04
harness!(c01_point_equal, 2, {
    let v: u8 = any();
    let mut x = P::new(v);
    let ch = x.merge(P::new(v));
    assert!(!ch, "C02 Point: merging an equal value reported a change");
    assert!(x.val == v, "C04 Point: merging an equal value changed it");
    assert!(x == P::new(v), "C01 Point: idempotence");
    assert!(x.partial_cmp(&P::new(v)) == Some(core::cmp::Ordering::Equal), "C03 Point: equal values compare Equal");
    assert!(x.is_bot() && x.is_top(), "C03 Point: the single element is both bottom and top");
    cov!(true, "reached end");
});

// "point lattices only ever merge equal values": for ALL unequal pairs the merge must panic, i.e. the
// sentinel after the call must be unreachable. The driver accepts exactly the documented panic here.
//@ prop=C01 expect_panic_at=lattices/src/point.rs
harness!(c01_point_unequal_panics, 2, {
    let a: u8 = any();
    let b: u8 = any();
    assume(a != b);
    let mut x = P::new(a);
    let _ = x.merge(P::new(b));
    assert!(false, "C01 Point merged two unequal values without panicking");
});

//@ prop=C03 expect_panic_at=lattices/src/point.rs
harness!(c03_point_unequal_cmp_panics, 2, {
    let a: u8 = any();
    let b: u8 = any();
    assume(a != b);
    let _ = P::new(a).partial_cmp(&P::new(b));
    assert!(false, "C03 Point compared two unequal values without panicking");
});
