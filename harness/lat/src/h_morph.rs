//! C07: shipped (bi)morphisms distribute over merge in each argument.
use std::collections::BTreeMap;

use lattices::map_union::{KeyedBimorphism, MapUnion};
use lattices::set_union::{CartesianProductBimorphism, SetUnion};
use lattices::{Conflict, LatticeBimorphism, Max, Merge, Pair, PairBimorphism, WithBot};

use crate::cap::CapSet;
use crate::sym::any;
use crate::types::{Lat, set_of};
use crate::{cov, harness};

type S4 = SetUnion<CapSet<u8, 4>>;
type P8 = CapSet<(u8, u8), 8>;

fn has_pair(s: &SetUnion<P8>, p: (u8, u8)) -> bool {
    s.as_reveal_ref().has(&p)
}

/// left argument: f(a ⊔ da, b) == f(a,b) ⊔ f(da,b); plus the relational meaning at a probe pair
fn cart_left(na: usize, nda: usize, nb: usize) {
    let (a, da, b) = (set_of::<4>(na), set_of::<4>(nda), set_of::<4>(nb));
    let mut f = CartesianProductBimorphism::<P8>::default();
    let lhs = f.call(Merge::merge_owned(a.clone(), da.clone()), b.clone());
    let rhs = Merge::merge_owned(f.call(a.clone(), b.clone()), f.call(da.clone(), b.clone()));
    assert!(lhs == rhs, "C07 cartesian product: left argument is not a morphism");
    let (p, q): (u8, u8) = (any(), any());
    let want = (a.as_reveal_ref().has(&p) || da.as_reveal_ref().has(&p)) && b.as_reveal_ref().has(&q);
    assert!(has_pair(&lhs, (p, q)) == want, "C07 cartesian product: output is not the product of the inputs");
    assert!(has_pair(&rhs, (p, q)) == want, "C07 cartesian product: merged outputs are not the product");
    cov!(want || na + nda == 0 || nb == 0, "probe pair present");
}
fn cart_right(na: usize, nb: usize, ndb: usize) {
    let (a, b, db) = (set_of::<4>(na), set_of::<4>(nb), set_of::<4>(ndb));
    let mut f = CartesianProductBimorphism::<P8>::default();
    let lhs = f.call(a.clone(), Merge::merge_owned(b.clone(), db.clone()));
    let rhs = Merge::merge_owned(f.call(a.clone(), b.clone()), f.call(a.clone(), db.clone()));
    assert!(lhs == rhs, "C07 cartesian product: right argument is not a morphism");
    let (p, q): (u8, u8) = (any(), any());
    let want = a.as_reveal_ref().has(&p) && (b.as_reveal_ref().has(&q) || db.as_reveal_ref().has(&q));
    assert!(has_pair(&lhs, (p, q)) == want, "C07 cartesian product: output is not the product of the inputs");
    cov!(want || na == 0 || nb + ndb == 0, "probe pair present");
}
harness!(c07_cartesian_left_1_1_2, 8, { cart_left(1, 1, 2); });
harness!(c07_cartesian_left_2_1_1, 8, { cart_left(2, 1, 1); });
harness!(c07_cartesian_left_0_2_2, 8, { cart_left(0, 2, 2); });
harness!(c07_cartesian_right_2_1_1, 8, { cart_right(2, 1, 1); });
harness!(c07_cartesian_right_1_2_2, 8, { cart_right(1, 2, 2); });
//@ tier=thorough
harness!(c07_cartesian_left_2_2_2, 10, { cart_left(2, 2, 2); });
//@ tier=thorough
harness!(c07_cartesian_right_2_2_2, 10, { cart_right(2, 2, 2); });
//@ tier=thorough
harness!(c07_cartesian_left_1_0_0, 8, { cart_left(1, 0, 0); });

// PairBimorphism over no-heap lattices, fully symbolic
harness!(c07_pair_bimorphism, 2, {
    type A = WithBot<Max<u8>>;
    type B = Conflict<u8>;
    let (a, da, b, db) = (A::sym(), A::sym(), B::sym(), B::sym());
    let mut f = PairBimorphism;
    let l = f.call(Merge::merge_owned(a, da), b);
    let r = Merge::merge_owned(f.call(a, b), f.call(da, b));
    assert!(l == r, "C07 PairBimorphism: left argument is not a morphism");
    let l2 = f.call(a, Merge::merge_owned(b, db));
    let r2 = Merge::merge_owned(f.call(a, b), f.call(a, db));
    assert!(l2 == r2, "C07 PairBimorphism: right argument is not a morphism");
    cov!(a != da, "distinct deltas");
});

// KeyedBimorphism<BTreeMap, CartesianProduct>: key shapes concrete, set contents symbolic
// maps on the harness-side no-heap CapMap (BTreeMap iteration/comparison costs CBMC minutes, DESIGN §2);
// the `KeyedBimorphism::call` body executed is the repository's.
type MK = MapUnion<crate::cap::CapMap<u8, S4, 4>>;
type MO = crate::cap::CapMap<u8, SetUnion<P8>, 4>;
fn mk(ents: &[(u8, usize)]) -> MK {
    let mut m = crate::cap::CapMap::<u8, S4, 4>::default();
    let mut i = 0;
    while i < ents.len() {
        m.keys[i] = Some(ents[i].0);
        m.vals[i] = Some(set_of::<4>(ents[i].1));
        m.len = i + 1;
        i += 1;
    }
    MapUnion::new(m)
}
/// Functional specification of `KeyedBimorphism<_, CartesianProduct>` at a symbolic probe (k, p, q):
/// (p,q) ∈ out[k]  ⇔  p ∈ a[k] ∧ q ∈ b[k]. Together with C07's cartesian harnesses this implies the
/// morphism law in both arguments (key-wise union commutes with key-wise product); checking the
/// specification needs ONE call instead of three calls plus two merges plus a nested-map comparison
/// (which exhausts 12 GB in CBMC).
fn keyed_spec(a: &[(u8, usize)], b: &[(u8, usize)], shared_keys: usize) {
    let (a, b) = (mk(a), mk(b));
    let mut f = KeyedBimorphism::<MO, _>::new(CartesianProductBimorphism::<P8>::default());
    let out = f.call(a.clone(), b.clone());
    let k: u8 = any();
    let (p, q): (u8, u8) = (any(), any());
    let in_a = a.as_reveal_ref().val(&k).is_some_and(|s| s.as_reveal_ref().has(&p));
    let in_b = b.as_reveal_ref().val(&k).is_some_and(|s| s.as_reveal_ref().has(&q));
    let got = out.as_reveal_ref().val(&k).is_some_and(|s| s.as_reveal_ref().has(&(p, q)));
    assert!(got == (in_a && in_b), "C07 keyed bimorphism: output is not the key-wise product");
    assert!(out.as_reveal_ref().len == shared_keys, "C07 keyed bimorphism: output keys != keys present in both arguments");
    cov!(got || shared_keys == 0, "probe present");
}
/// the morphism law itself on the smallest shapes that exercise a merge on a shared key
fn keyed_left_law(a: &[(u8, usize)], da: &[(u8, usize)], b: &[(u8, usize)]) {
    let (a, da, b) = (mk(a), mk(da), mk(b));
    let mut f = KeyedBimorphism::<MO, _>::new(CartesianProductBimorphism::<P8>::default());
    let lhs = f.call(Merge::merge_owned(a.clone(), da.clone()), b.clone());
    let rhs = Merge::merge_owned(f.call(a, b.clone()), f.call(da, b));
    assert!(lhs == rhs, "C07 keyed bimorphism: left argument is not a morphism");
    cov!(lhs.as_reveal_ref().len > 0, "non-empty output");
}
//@ heavy=1
harness!(c07_keyed_spec_two_shared_keys, 6, { keyed_spec(&[(0, 1), (1, 1)], &[(1, 1), (0, 1)], 2); });
//@ heavy=1
harness!(c07_keyed_spec_one_shared_key, 6, { keyed_spec(&[(0, 1), (1, 2)], &[(1, 1), (2, 1)], 1); });
//@ heavy=1 tier=thorough
harness!(c07_keyed_spec_no_shared_key, 6, { keyed_spec(&[(0, 1)], &[(1, 1)], 0); });
//@ heavy=1 tier=thorough
harness!(c07_keyed_spec_sets2, 6, { keyed_spec(&[(0, 2), (1, 1)], &[(0, 2), (1, 1)], 2); });
//@ heavy=1 tier=thorough
harness!(c07_keyed_left_law_a0_d0_b0, 6, { keyed_left_law(&[(0, 1)], &[(0, 1)], &[(0, 1)]); });
//@ heavy=1 tier=thorough
harness!(c07_keyed_left_law_a0_d1_b01, 6, { keyed_left_law(&[(0, 1)], &[(1, 1)], &[(0, 1), (1, 1)]); });
