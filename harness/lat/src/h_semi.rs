//! C09 (second half): the shipped semiring applications satisfy the semiring laws they claim.
//! Raw values enter/leave through the `hydro_project_hydro_verif` hooks (`verif_new` / `verif_get`).
use lattices::semiring_application::{BinaryTrust, ConfidenceScore, Cost, FuzzyLogic, Multiplicity, U32WithInfinity};
use lattices::{Addition, Multiplication, One, Zero};

use crate::sym::{any, assume};
use crate::{cov, harness};

/// the eight semiring laws at a symbolic triple, for carrier `$t` with raw type `$raw`
macro_rules! semiring_laws {
    ($t:ty, $a:expr, $b:expr, $c:expr) => {{
        let n = |r| <$t>::verif_new(r);
        let add = |x, y| { let mut v = n(x); v.add(n(y)); v.verif_get() };
        let mul = |x, y| { let mut v = n(x); v.mul(n(y)); v.verif_get() };
        let (a, b, c) = ($a, $b, $c);
        let zero = n(a).zero();
        let one = n(a).one();
        assert!(add(add(a, b), c) == add(a, add(b, c)), "C09 semiring: + not associative");
        assert!(add(a, b) == add(b, a), "C09 semiring: + not commutative");
        assert!(add(a, zero) == a && add(zero, a) == a, "C09 semiring: zero() is not the identity of +");
        assert!(mul(mul(a, b), c) == mul(a, mul(b, c)), "C09 semiring: * not associative");
        assert!(mul(a, one) == a && mul(one, a) == a, "C09 semiring: one() is not the identity of *");
        assert!(mul(a, zero) == zero && mul(zero, a) == zero, "C09 semiring: zero() does not annihilate");
        assert!(mul(a, add(b, c)) == add(mul(a, b), mul(a, c)), "C09 semiring: * does not distribute over + (left)");
        assert!(mul(add(b, c), a) == add(mul(b, a), mul(c, a)), "C09 semiring: * does not distribute over + (right)");
    }};
}

harness!(c09_semiring_binary_trust, 2, {
    let (a, b, c): (bool, bool, bool) = (any(), any(), any());
    semiring_laws!(BinaryTrust, a, b, c);
    assert!(BinaryTrust::new().verif_get(), "C09 BinaryTrust::new() is not `true`");
    cov!(a && !b, "mixed");
});

// Multiplicity documents checked arithmetic (panics on overflow): laws on the non-overflowing range.
// Symbolic x symbolic multiplication is a weak target for a bit-blasting solver: the laws that
// multiply two symbolic operands twice (associativity, distributivity) get 4-bit operands, the rest 16-bit.
harness!(c09_semiring_multiplicity_linear, 2, {
    let (a, b, c): (u32, u32, u32) = (any(), any(), any());
    assume(a < 65536 && b < 65536 && c < 65536);
    let n = |r| Multiplicity::verif_new(r);
    let add = |x, y| { let mut v = n(x); v.add(n(y)); v.verif_get() };
    let mul = |x, y| { let mut v = n(x); v.mul(n(y)); v.verif_get() };
    let (zero, one) = (n(a).zero(), n(a).one());
    assert!(add(add(a, b), c) == add(a, add(b, c)), "C09 semiring: + not associative");
    assert!(add(a, b) == add(b, a), "C09 semiring: + not commutative");
    assert!(add(a, zero) == a && add(zero, a) == a, "C09 semiring: zero() is not the identity of +");
    assert!(mul(a, one) == a && mul(one, a) == a, "C09 semiring: one() is not the identity of *");
    assert!(mul(a, zero) == zero && mul(zero, a) == zero, "C09 semiring: zero() does not annihilate");
    cov!(a > 1 && b > 1 && c > 1, "non-trivial");
});
//@ heavy=1
harness!(c09_semiring_multiplicity_products, 2, {
    let (a, b, c): (u32, u32, u32) = (any(), any(), any());
    assume(a < 16 && b < 16 && c < 16);
    semiring_laws!(Multiplicity, a, b, c);
    cov!(a > 1 && b > 1 && c > 1, "non-trivial");
});

fn cost_sym() -> U32WithInfinity {
    if any::<bool>() { U32WithInfinity::Infinity } else { U32WithInfinity::Finite(any()) }
}
// Cost = tropical semiring (min, +) over the FULL u32 range plus infinity.
harness!(c09_semiring_cost, 2, {
    let (a, b, c) = (cost_sym(), cost_sym(), cost_sym());
    semiring_laws!(Cost, a, b, c);
    cov!(matches!((a, b, c), (U32WithInfinity::Finite(_), U32WithInfinity::Finite(_), U32WithInfinity::Infinity)), "mixed");
});

fn unit_f64() -> f64 {
    // documented domain of ConfidenceScore / FuzzyLogic: [0, 1] (asserted by `new`)
    #[cfg(kani)]
    let v: f64 = kani::any();
    #[cfg(not(kani))]
    let v: f64 = f64::from_bits(any::<u64>());
    assume(v >= 0.0 && v <= 1.0);
    v
}
// FuzzyLogic = ([0,1], max, min): every law, all doubles in [0,1].
harness!(c09_semiring_fuzzy_logic, 2, {
    let (a, b, c) = (unit_f64(), unit_f64(), unit_f64());
    semiring_laws!(FuzzyLogic, a, b, c);
    cov!(a < b && b < c, "ordered");
});
// ConfidenceScore = ([0,1], max, *): the laws that do not need exact real arithmetic. IEEE `*` is
// not associative (0.1*0.2*0.3), so exact associativity of * is outside the claim (DESIGN §4 C09).
harness!(c09_semiring_confidence_score_additive, 2, {
    let (a, b, c) = (unit_f64(), unit_f64(), unit_f64());
    let n = |r| ConfidenceScore::verif_new(r);
    let add = |x, y| { let mut v = n(x); v.add(n(y)); v.verif_get() };
    let mul = |x, y| { let mut v = n(x); v.mul(n(y)); v.verif_get() };
    let zero = n(a).zero();
    let one = n(a).one();
    assert!(add(add(a, b), c) == add(a, add(b, c)), "C09 semiring: + not associative");
    assert!(add(a, b) == add(b, a), "C09 semiring: + not commutative");
    assert!(add(a, zero) == a && add(zero, a) == a, "C09 semiring: zero() is not the identity of +");
    assert!(mul(a, one) == a && mul(one, a) == a, "C09 semiring: one() is not the identity of *");
    assert!(mul(a, zero) == zero && mul(zero, a) == zero, "C09 semiring: zero() does not annihilate");
    cov!(a < b && b < c, "ordered");
});
