//! Kani harnesses over the real `hydro_deploy_integration::MergeSource` / `TaggedSource`.
#![allow(clippy::all)]
#![allow(unused_imports, dead_code)]

#[path = "../../common/sym.rs"]
pub mod sym;

include!("mods.rs");
