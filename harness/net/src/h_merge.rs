//! C15: merged network sources keep per-sender order and lose nothing. The real
//! `MergeSource::poll_next` (round robin + cursor fix-up after removals) and `TaggedSource::poll_next`
//! over scripted streams whose per-poll answer (Ready(Some) | Pending | Ready(None)) is symbolic.
use std::io;
use std::pin::Pin;
use std::task::{Context, Poll, Waker};

use futures::Stream;
use hydro_deploy_integration::{MergeSource, TaggedSource};

use crate::sym::{any, assume};
use crate::{cov, harness};

const T_READY: u8 = 0;
const T_PEND: u8 = 1;
const T_END: u8 = 2;

/// scripted stream: yields its sequence numbers 0,1,2,.. at `Ready` tags; must never be polled after `None`
pub struct SStream<const N: usize> {
    id: u8,
    /// script entries actually used (<= N): after `len` answers the source ends
    len: usize,
    tags: [u8; N],
    pos: usize,
    next_seq: u8,
    ended: bool,
}
impl<const N: usize> SStream<N> {
    fn sym() -> Self {
        let mut tags = [0u8; N];
        let mut i = 0;
        while i < N {
            let t: u8 = any();
            assume(t <= T_END);
            tags[i] = t;
            i += 1;
        }
        SStream { id: 0, len: N, tags, pos: 0, next_seq: 0, ended: false }
    }
    /// number of items this source will ever deliver
    fn total(&self) -> u8 {
        let mut n = 0;
        let mut i = 0;
        while i < N {
            if i >= self.len || self.tags[i] == T_END {
                break;
            }
            if self.tags[i] == T_READY {
                n += 1;
            }
            i += 1;
        }
        n
    }
}
/// the same script as a fallible stream (for `TaggedSource`, whose item type is fixed to `Result<T, io::Error>`)
pub struct SResult<const N: usize>(SStream<N>);
impl<const N: usize> Stream for SResult<N> {
    type Item = Result<u8, io::Error>;
    fn poll_next(self: Pin<&mut Self>, cx: &mut Context<'_>) -> Poll<Option<Self::Item>> {
        match Pin::new(&mut self.get_mut().0).poll_next(cx) {
            Poll::Ready(Some((_, s))) => Poll::Ready(Some(Ok(s))),
            Poll::Ready(None) => Poll::Ready(None),
            Poll::Pending => Poll::Pending,
        }
    }
}
impl<const N: usize> Stream for SStream<N> {
    type Item = (u32, u8);
    fn poll_next(self: Pin<&mut Self>, _cx: &mut Context<'_>) -> Poll<Option<Self::Item>> {
        let this = self.get_mut();
        assert!(!this.ended, "C15 a source was polled again after it had ended");
        if this.pos >= this.len {
            this.ended = true;
            return Poll::Ready(None);
        }
        let t = this.tags[this.pos];
        this.pos += 1;
        if t == T_READY {
            let s = this.next_seq;
            this.next_seq += 1;
            Poll::Ready(Some((this.id as u32, s)))
        } else if t == T_PEND {
            Poll::Pending
        } else {
            this.ended = true;
            Poll::Ready(None)
        }
    }
}

/// `MergeSource` is generic in its item type: the round-robin / removal / cursor logic is checked on
/// plain `(sender, seq)` items — `io::Error`'s drop glue (needed only by `TaggedSource`) makes CBMC run
/// out of memory and is irrelevant to the merge logic. `TaggedSource` is checked on its own below.
fn merge_check<const K: usize, const N: usize>(polls: usize) {
    merge_check_lens::<K, N>([N; K], polls)
}
/// `lens[i]` = script length of source i (sources may differ in length; 0 = ends at its first poll)
fn merge_check_lens<const K: usize, const N: usize>(lens: [usize; K], polls: usize) {
    let mut totals = [0u8; K];
    let mut srcs: Vec<Pin<Box<SStream<N>>>> = Vec::with_capacity(K);
    let mut i = 0;
    while i < K {
        let mut s = SStream::<N>::sym();
        s.id = i as u8;
        s.len = lens[i];
        totals[i] = s.total();
        srcs.push(Box::pin(s));
        i += 1;
    }
    let mut m = MergeSource::<(u32, u8), SStream<N>>::verif_new(srcs);
    let mut cx = Context::from_waker(Waker::noop());
    let mut seen = [0u8; K]; // next expected sequence number per sender
    let mut ended = false;
    let mut k = 0;
    while k < polls {
        match Pin::new(&mut m).poll_next(&mut cx) {
            Poll::Ready(Some((id, seq))) => {
                assert!(!ended, "C15 merged stream produced an item after it had ended");
                let id = id as usize;
                assert!(id < K, "C15 item tagged with an unknown sender");
                assert!(seq == seen[id], "C15 a sender's items were reordered, repeated or lost");
                seen[id] += 1;
            }
            Poll::Ready(None) => {
                // ends exactly when every source has delivered everything and ended
                let mut j = 0;
                while j < K {
                    assert!(seen[j] == totals[j], "C15 merged stream ended before a sender's items were all delivered");
                    j += 1;
                }
                ended = true;
                break;
            }
            Poll::Pending => assert!(!ended, "C15 Pending after end"),
        }
        let (cursor, live) = m.verif_cursor();
        assert!(cursor < live || live == 0, "C15 poll cursor out of range after a poll (cursor fix-up)");
        k += 1;
    }
    assert!(ended, "C15 merged stream did not end although every source ended");
    cov!(seen[0] >= 1 && (lens[K - 1] == 0 || seen[K - 1] >= 1), "items from first and last sender");
    cov!(k >= 3, "at least three polls before the end");
    core::mem::forget(m);
}

//@ heavy=1
harness!(c15_merge_2x2, 8, { merge_check::<2, 2>(7); });
// three sources of different lengths: the removal of several ended sources in one round with a
// pending survivor (cursor fix-up) needs at least three sources
//@ heavy=1
harness!(c15_merge_3_lens_2_1_0, 8, { merge_check_lens::<3, 2>([2, 1, 0], 6); });
//@ heavy=1 tier=thorough
harness!(c15_merge_3_lens_1_2_1, 8, { merge_check_lens::<3, 2>([1, 2, 1], 7); });
// (3 senders x 2 symbolic script entries and 2 x 3 exhaust 16 GB in CBMC: not kept — the thorough bound is
// 3 senders with concrete script lengths [1,2,1] / [2,1,0] and 2 senders x 2 fully symbolic entries)

// TaggedSource: every item of the inner stream is passed through, in order, with the sender's tag
//@ heavy=1
harness!(c15_tagged_source, 6, {
    let inner = SStream::<3>::sym();
    let total = inner.total();
    let id: u32 = any();
    let mut t = TaggedSource::<u8, SResult<3>>::verif_new(id, Box::pin(SResult(inner)));
    let mut cx = Context::from_waker(Waker::noop());
    let mut seen = 0u8;
    let mut ended = false;
    let mut k = 0;
    while k < 4 {
        match Pin::new(&mut t).poll_next(&mut cx) {
            Poll::Ready(Some(Ok((tag, seq)))) => {
                assert!(tag == id, "C15 TaggedSource: wrong sender tag");
                assert!(seq == seen, "C15 TaggedSource: item lost, repeated or reordered");
                seen += 1;
            }
            Poll::Ready(Some(Err(e))) => {
                core::mem::forget(e);
                assert!(false, "C15 TaggedSource: unexpected error item");
            }
            Poll::Ready(None) => {
                assert!(seen == total, "C15 TaggedSource ended before the inner stream's items were delivered");
                ended = true;
                break;
            }
            Poll::Pending => {}
        }
        k += 1;
    }
    assert!(ended, "C15 TaggedSource did not end");
    cov!(seen == 3, "three items");
    core::mem::forget(t);
});
