//! C15: merged network sources keep per-sender order and lose nothing. The real
//! `MergeSource::poll_next` (round robin + cursor fix-up after removals) and `TaggedSource::poll_next`
//! over scripted streams whose per-poll answer (Ready(Some) | Pending | Ready(None)) is symbolic.
use std::io;
use std::pin::Pin;
use std::task::{Context, Poll, Waker};

use futures::Stream;
use hydro_deploy_integration::{MergeSource, TaggedSource};

use crate::sym::{any, assume};
use crate::{cov, harness};

const T_READY: u8 = 0;
const T_PEND: u8 = 1;
const T_END: u8 = 2;

/// scripted stream: yields its sequence numbers 0,1,2,.. at `Ready` tags; must never be polled after `None`
pub struct SStream<const N: usize> {
    tags: [u8; N],
    pos: usize,
    next_seq: u8,
    ended: bool,
}
impl<const N: usize> SStream<N> {
    fn sym() -> Self {
        let mut tags = [0u8; N];
        let mut i = 0;
        while i < N {
            let t: u8 = any();
            assume(t <= T_END);
            tags[i] = t;
            i += 1;
        }
        SStream { tags, pos: 0, next_seq: 0, ended: false }
    }
    /// number of items this source will ever deliver
    fn total(&self) -> u8 {
        let mut n = 0;
        let mut i = 0;
        while i < N {
            if self.tags[i] == T_END {
                break;
            }
            if self.tags[i] == T_READY {
                n += 1;
            }
            i += 1;
        }
        n
    }
}
impl<const N: usize> Stream for SStream<N> {
    type Item = Result<u8, io::Error>;
    fn poll_next(self: Pin<&mut Self>, _cx: &mut Context<'_>) -> Poll<Option<Self::Item>> {
        let this = self.get_mut();
        assert!(!this.ended, "C15 a source was polled again after it had ended");
        if this.pos >= N {
            this.ended = true;
            return Poll::Ready(None);
        }
        let t = this.tags[this.pos];
        this.pos += 1;
        if t == T_READY {
            let s = this.next_seq;
            this.next_seq += 1;
            Poll::Ready(Some(Ok(s)))
        } else if t == T_PEND {
            Poll::Pending
        } else {
            this.ended = true;
            Poll::Ready(None)
        }
    }
}

type Tagged<const N: usize> = TaggedSource<u8, SStream<N>>;

fn merge_check<const K: usize, const N: usize>(polls: usize) {
    let mut totals = [0u8; K];
    let mut srcs: Vec<Pin<Box<Tagged<N>>>> = Vec::with_capacity(K);
    let mut i = 0;
    while i < K {
        let s = SStream::<N>::sym();
        totals[i] = s.total();
        srcs.push(Box::pin(TaggedSource::verif_new(i as u32, Box::pin(s))));
        i += 1;
    }
    let mut m = MergeSource::<Result<(u32, u8), io::Error>, Tagged<N>>::verif_new(srcs);
    let mut cx = Context::from_waker(Waker::noop());
    let mut seen = [0u8; K]; // next expected sequence number per sender
    let mut ended = false;
    let mut k = 0;
    while k < polls {
        match Pin::new(&mut m).poll_next(&mut cx) {
            Poll::Ready(Some(Ok((id, seq)))) => {
                assert!(!ended, "C15 merged stream produced an item after it had ended");
                let id = id as usize;
                assert!(id < K, "C15 item tagged with an unknown sender");
                assert!(seq == seen[id], "C15 a sender's items were reordered, repeated or lost");
                seen[id] += 1;
            }
            Poll::Ready(Some(Err(_))) => assert!(false, "C15 unexpected error item"),
            Poll::Ready(None) => {
                // ends exactly when every source has delivered everything and ended
                let mut j = 0;
                while j < K {
                    assert!(seen[j] == totals[j], "C15 merged stream ended before a sender's items were all delivered");
                    j += 1;
                }
                ended = true;
                break;
            }
            Poll::Pending => assert!(!ended, "C15 Pending after end"),
        }
        let (cursor, live) = m.verif_cursor();
        assert!(cursor < live || live == 0, "C15 poll cursor out of range after a poll (cursor fix-up)");
        k += 1;
    }
    assert!(ended, "C15 merged stream did not end although every source ended");
    cov!(seen[0] >= 1 && seen[K - 1] >= 1, "items from first and last sender");
    cov!(totals[0] == 0 && seen[K - 1] as usize == N, "one sender empty, another full");
    core::mem::forget(m);
}

//@ heavy=1
harness!(c15_merge_2x2, 8, { merge_check::<2, 2>(7); });
//@ heavy=1 tier=thorough
harness!(c15_merge_3x2, 10, { merge_check::<3, 2>(10); });
//@ heavy=1 tier=thorough
harness!(c15_merge_2x3, 10, { merge_check::<2, 3>(9); });
